#!/bin/bash
# Entry point of every registered check:  run.sh <property-id> <quick|thorough> [extra args]
# Rebuilds the harness (linked against /repo's working tree, hooks on) and the task CLI, then runs the check.
set -u
cd "$(dirname "$0")"
export GOFLAGS=-mod=mod GOPROXY=off GOSUMDB=off GOTOOLCHAIN=local
VERIF=$(pwd)
export VERIF_ROOT="$VERIF"
mkdir -p .work/bin evidence replays
build() {
  ( cd harness && cp /repo/go.sum go.sum 2>/dev/null; go build -tags verif -o "$VERIF/.work/bin/check" ./cmd/check ) || return 2
  ( cd harness && go build -o "$VERIF/.work/bin/argvdump" ./cmd/argvdump ) || return 2
  if [ "${1:-}" = "C18" ] || [ "${1:-}" = "--build-only" ]; then
    ( cd harness && go build -race -tags verif -o "$VERIF/.work/bin/check-race" ./cmd/check ) || return 2
  fi
  ( cd /repo && go build -tags verif -o "$VERIF/.work/bin/task" ./cmd/task ) || return 2
  return 0
}
if ! build "${1:-}" >.work/build.log 2>&1; then
  cat .work/build.log
  echo "ERROR: could not build harness against /repo (exit 2, not a verdict)"
  exit 2
fi
if [ "${1:-}" = "--build-only" ]; then exit 0; fi
exec "$VERIF/.work/bin/check" "$@"
