package execfam

import (
	"fmt"
	"regexp"
	"strings"
	"time"

	"verifharness/rep"
	"verifharness/tlc"
)

type Viol struct {
	Prop string `json:"prop"`
	Sig  string `json:"sig"`
}

var verdictRe = regexp.MustCompile(`^"VERDICT\|([^|]*)\|(.*)"$`)

func init() { _ = verdictRe }
var violRe = regexp.MustCompile(`\[prop \|-> \\?"([^"\\]+)\\?", sig \|-> \\?"([^"\\]+)\\?"\]`)

var SpecDir = rep.Root + "/specs/exec"

type PropsVerdicts struct {
	ByTrace map[string][]Viol
	States  int64
	Wall    time.Duration
	Out     string
}

// ValidateProps evaluates the ExecProps monitor (by TLC) on recorded traces; large batches are split
// over several TLC processes.
func ValidateProps(progs []*Program, traces []TraceItem) (*PropsVerdicts, error) {
	const chunk = 400
	if len(traces) <= chunk {
		return validatePropsOne(progs, traces)
	}
	n := (len(traces) + chunk - 1) / chunk
	outs := make([]*PropsVerdicts, n)
	errs := make([]error, n)
	sem := make(chan struct{}, 12)
	done := make(chan int, n)
	for c := 0; c < n; c++ {
		go func(c int) {
			sem <- struct{}{}
			defer func() { <-sem; done <- c }()
			hi := (c + 1) * chunk
			if hi > len(traces) {
				hi = len(traces)
			}
			outs[c], errs[c] = validatePropsOne(progs, traces[c*chunk:hi])
		}(c)
	}
	for c := 0; c < n; c++ {
		<-done
	}
	all := &PropsVerdicts{ByTrace: map[string][]Viol{}}
	for c := 0; c < n; c++ {
		if errs[c] != nil {
			return all, errs[c]
		}
		for k, v := range outs[c].ByTrace {
			all.ByTrace[k] = v
		}
		all.States += outs[c].States
		if outs[c].Wall > all.Wall {
			all.Wall = outs[c].Wall
		}
	}
	return all, nil
}

func validatePropsOne(progs []*Program, traces []TraceItem) (*PropsVerdicts, error) {
	if len(traces) == 0 {
		return &PropsVerdicts{ByTrace: map[string][]Viol{}}, nil
	}
	data := DataModule(progs, traces)
	r := tlc.Run(tlc.Opts{SpecDir: SpecDir, Extra: map[string]string{"ExecData.tla": data},
		Module: "ExecPropsTrace", Config: "ExecPropsTrace.cfg", Workers: 1, Timeout: 10 * time.Minute})
	pv := &PropsVerdicts{ByTrace: map[string][]Viol{}, States: r.Distinct, Wall: r.Wall, Out: r.Out}
	if r.TimedOut {
		return pv, fmt.Errorf("TLC timed out validating %d traces", len(traces))
	}
	for _, ln := range tlc.Printed(r.Out, "VERDICT") {
		m := verdictRe.FindStringSubmatch(ln)
		if m == nil {
			continue
		}
		var vs []Viol
		for _, v := range violRe.FindAllStringSubmatch(m[2], -1) {
			vs = append(vs, Viol{v[1], v[2]})
		}
		pv.ByTrace[m[1]] = vs
	}
	if len(pv.ByTrace) != len(traces) {
		tail := r.Out
		if len(tail) > 3000 {
			tail = tail[len(tail)-3000:]
		}
		return pv, fmt.Errorf("TLC evaluated %d of %d traces:\n%s", len(pv.ByTrace), len(traces), tail)
	}
	return pv, nil
}

func TraceString(evs []Ev) string {
	var parts []string
	for _, e := range evs {
		switch e.E {
		case "B", "E":
			s := fmt.Sprintf("%s(%s:%s#%d", e.E, e.P, e.T, e.I)
			if e.Item != "" {
				s += "_" + e.Item
			}
			if e.V != "" {
				s += " V=" + e.V
			}
			if e.XC != "" {
				s += " XC=" + e.XC
			}
			parts = append(parts, s+")")
		case "R":
			parts = append(parts, fmt.Sprintf("R(%s code=%d xcode=%d %s)", e.Class, e.Code, e.XCode, e.Msg))
		case "Q":
			parts = append(parts, fmt.Sprintf("Q%v", e.Set))
		case "GB":
			parts = append(parts, fmt.Sprintf("g+%s(%s:%s)", e.Msg, e.P, e.T))
		case "GE":
			parts = append(parts, fmt.Sprintf("g-%s(%s:%s)", e.Msg, e.P, e.T))
		default:
			parts = append(parts, e.E)
		}
	}
	return strings.Join(parts, " ")
}

type Nonconf struct {
	ID  string `json:"id"`
	Pos int    `json:"pos"` // number of events explained
	Len int    `json:"len"`
}

type ModelVerdict struct {
	Accepted int
	Rejected []Nonconf
	States   int64
	Wall     time.Duration
	Runs     int
	Err      error
	Unchecked int      // traces whose validation was not attempted or did not finish in time
	Slow      []string // single traces that did not finish in time
}

var hwRe = regexp.MustCompile(`<<"HW", (\d+)>>`)

// ValidateModel checks that every trace is a behaviour of Exec (trace validation by TLC).
// cfg is ExecTrace.cfg (pinned behaviour, KF on) or ExecTraceDesign.cfg (KF off).
// Traces are validated in batches; a batch that does not finish in time is split, and a single trace
// that does not finish in time is counted as unchecked (never as rejected); nothing is started after
// the deadline.
func ValidateModel(progs []*Program, traces []TraceItem, cfg string, deadline time.Time) ModelVerdict {
	var mv ModelVerdict
	const batch = 100
	var queue [][]TraceItem
	for i := 0; i < len(traces); i += batch {
		hi := i + batch
		if hi > len(traces) {
			hi = len(traces)
		}
		queue = append(queue, traces[i:hi])
	}
	for len(queue) > 0 {
		rest := queue[0]
		queue = queue[1:]
		for len(rest) > 0 {
			left := time.Until(deadline)
			if left < 20*time.Second {
				mv.Unchecked += len(rest)
				break
			}
			to := 3 * time.Minute
			if left < to {
				to = left
			}
			data := DataModule(progs, rest)
			r := tlc.Run(tlc.Opts{SpecDir: SpecDir, Extra: map[string]string{"ExecData.tla": data},
				Module: "ExecTrace", Config: cfg, Workers: 1, Timeout: to, DFS: true, HeapMB: 6000})
			mv.Runs++
			mv.States += r.Distinct
			mv.Wall += r.Wall
			if r.TimedOut || (r.Violation == "" && !r.OK && hwRe.FindStringSubmatch(r.Out) == nil && !strings.Contains(r.Out, "Parsing or semantic analysis failed")) {
				// out of time, or the JVM ran out of memory / was killed: never a verdict - split the batch
				if len(rest) == 1 {
					mv.Unchecked++
					mv.Slow = append(mv.Slow, rest[0].ID)
				} else {
					h := len(rest) / 2
					queue = append(queue, rest[:h], rest[h:])
				}
				break
			}
			if r.Violation == "NotAccepted" {
				mv.Accepted += len(rest)
				break
			}
			m := hwRe.FindStringSubmatch(r.Out)
			if m == nil || !r.OK {
				tail := r.Out
				if len(tail) > 3000 {
					tail = tail[len(tail)-3000:]
				}
				mv.Err = fmt.Errorf("trace validation did not complete:\n%s", tail)
				return mv
			}
			var hw int
			fmt.Sscanf(m[1], "%d", &hw)
			k, l := hw/100000, hw%100000
			if k < 1 || k > len(rest) {
				mv.Err = fmt.Errorf("bad high-water mark %d", hw)
				return mv
			}
			mv.Accepted += k - 1
			mv.Rejected = append(mv.Rejected, Nonconf{ID: rest[k-1].ID, Pos: l - 1, Len: len(rest[k-1].Evs)})
			rest = rest[k:]
		}
	}
	return mv
}
