//go:build !verif

package execfam

import "github.com/go-task/task/v3/taskfile/ast"

const HooksAvailable = false

func setHook(f func(point string, t *ast.Task)) {}
