package execfam

import (
	"encoding/json"
	"fmt"
	"math/rand"
	"os"
	"runtime"
	"sort"
	"strings"
	"time"

	"verifharness/rep"
	"verifharness/tlc"
)

func baseOpts() GenOpts {
	return GenOpts{MinTasks: 2, MaxTasks: 5, MaxDeps: 2, MaxCmds: 3,
		PFail: 0.15, PIgnCmd: 0.3, PIgnTask: 0.1, POnce: 0.2, PWhenChanged: 0.1,
		PGuard: 0.0, PDefer: 0.08, PDeferCall: 0.03, PFor: 0.08, PCall: 0.2, PPassV: 0.3,
		Ns: []int{0, 0, 1, 2, 3}, PTwoRoots: 0.1, PParallel: 0.5, MaxProbes: 12,
		ExitCodes: []int{1, 2, 3, 7, 127, 255}, PEnvUse: 0.0}
}

// Profile returns the sampler profile for a property focus.
func Profile(prop string) GenOpts {
	o := baseOpts()
	switch prop {
	case "C01":
		o.MaxDeps, o.POnce, o.PWhenChanged, o.PFail = 3, 0.3, 0.15, 0.2
	case "C02":
		o.PCall, o.PFor, o.PPassV, o.PDeferCall, o.MaxCmds = 0.4, 0.2, 0.5, 0.06, 4
	case "C03":
		o.PFail, o.PIgnCmd, o.PIgnTask, o.PCall = 0.4, 0.35, 0.25, 0.3
	case "C06":
		o.POnce, o.PWhenChanged, o.PPassV, o.PCall, o.PEnvUse, o.PPair = 0.35, 0.3, 0.6, 0.35, 0.3, 0.4
	case "C07":
		o.MaxDeps, o.Ns, o.POnce, o.PCall = 3, []int{1, 1, 2, 2, 3, 0}, 0.25, 0.3
		o.PDefer, o.PDeferCall, o.PFail = 0.1, 0.12, 0.15
		o.PGuard, o.Guards = 0.15, []string{"platform", "uptodate", "precond"}
	case "C13":
		o.PForceAll = 0.1
		o.PGuard, o.Guards, o.PForce, o.PYes = 0.35, []string{"platform", "platreq", "requires", "requires2", "enum", "precond", "prompt", "uptodate", "internal"}, 0.15, 0.3
	case "C14":
		o.PDefer, o.PDeferCall, o.PFail, o.PCall = 0.3, 0.1, 0.3, 0.25
	}
	return o
}

type Budget struct {
	GenProgs   int // sampled programs
	MCProgs    int // how many of them (smallest) are model-checked exhaustively
	DFS        int // max release orders per program (depth-first, exhaustive when fewer)
	Seeds      int // extra random schedules per program
	LiveProgs  int
	MCTimeout  time.Duration
	Workers    int
	MCSize     int // largest program (probe instances) that is model-checked exhaustively
}

func budget(tier string) Budget {
	if tier == "thorough" {
		return Budget{GenProgs: 260, MCProgs: 140, DFS: 150, Seeds: 5, LiveProgs: 40, MCTimeout: 10 * time.Minute, Workers: runtime.NumCPU(), MCSize: 9}
	}
	return Budget{GenProgs: 36, MCProgs: 30, DFS: 40, Seeds: 2, LiveProgs: 10, MCTimeout: 3 * time.Minute, Workers: runtime.NumCPU(), MCSize: 7}
}

type replayBundle struct {
	Property string    `json:"property"`
	Sig      string    `json:"sig"`
	Program  *Program  `json:"program"`
	Taskfile string    `json:"taskfile"`
	Release  []string  `json:"release_order"`
	Gates    []string  `json:"gates,omitempty"`
	Trace    []Ev      `json:"trace"`
	Pretty   string    `json:"trace_pretty"`
	Repro    string    `json:"reproduce"`
	Confirmed bool     `json:"confirmed_by_reexecution"`
}

func gatesFor(p *Program) []string {
	var g []string
	for _, t := range p.Tasks {
		if t.run() != "always" {
			g = []string{"dedup"}
			break
		}
	}
	return g
}

// nontrivial decides whether a trace exercised the antecedent of the property.
func nontrivial(prop string, p *Program, evs []Ev) bool {
	nB := 0
	concurrent := false
	open := 0
	for _, e := range evs {
		if e.E == "B" {
			nB++
			open++
			if open > 1 {
				concurrent = true
			}
		} else if e.E == "E" {
			open--
		}
	}
	has := func(f string) bool {
		for _, x := range Features(p) {
			if x == f || strings.HasPrefix(x, f) {
				return true
			}
		}
		return false
	}
	switch prop {
	case "C01":
		return has("deps") && nB >= 2
	case "C02":
		return nB >= 3 && (has("call") || has("for-"))
	case "C03":
		return has("fail") && nB >= 2
	case "C06":
		return (has("once") || has("when_changed")) && nB >= 2
	case "C07":
		return p.N > 0 && concurrent || has("deps") && concurrent
	case "C13":
		return has("guard:")
	case "C14":
		return has("defer")
	}
	return nB >= 2
}

// CheckExec is the registered check of the executor family for one property.
func CheckExec(prop, tier string) int {
	t0 := time.Now()
	seed := rep.Seed()
	bud := budget(tier)
	rp := rep.NewReporter(prop)
	kf := rep.LoadFindings()
	OpenKFs = kf.OpenKFs()
	rng := rand.New(rand.NewSource(seed*7919 + int64(len(prop))*104729 + int64(prop[2])*31))

	// ---- programs
	progs := Core()
	opts := Profile(prop)
	for i := 0; i < bud.GenProgs; i++ {
		progs = append(progs, Gen(rng, opts, fmt.Sprintf("g%d-s%d", i, seed)))
	}

	// ---- MC: the design satisfies the properties on these programs (all interleavings)
	mcIdx := make([]int, len(progs))
	for i := range mcIdx {
		mcIdx[i] = i
	}
	sort.SliceStable(mcIdx, func(a, b int) bool { return Size(progs[mcIdx[a]]) < Size(progs[mcIdx[b]]) })
	nCore := len(Core())
	nMC := nCore + bud.MCProgs
	if nMC > len(progs) {
		nMC = len(progs)
	}
	var mcProgs []*Program
	for _, i := range mcIdx {
		if len(mcProgs) >= nMC {
			break
		}
		if Size(progs[i]) <= bud.MCSize && !IsCyclic(progs[i]) {
			mcProgs = append(mcProgs, progs[i])
		}
	}
	mc := tlc.Run(tlc.Opts{SpecDir: SpecDir, Extra: map[string]string{"ExecData.tla": DataModule(mcProgs, nil)},
		Module: "ExecMC", Config: "ExecMC.cfg", Workers: bud.Workers, Timeout: bud.MCTimeout})
	if mc.TimedOut {
		rp.Note("NOTE: exhaustive model checking of %d programs timed out after %v (%d distinct states so far); continuing with conformance", len(mcProgs), bud.MCTimeout, mc.Distinct)
	} else if !mc.OK {
		fmt.Println(tailStr(mc.Out, 6000))
		fmt.Printf("ERROR: TLC reports %q on the DESIGN model (KF off). This is a model-level counterexample, not a verdict about the code (exit 2).\n", mc.Violation)
		return 2
	}
	var live tlc.Result
	if bud.LiveProgs > 0 {
		lp := mcProgs
		if len(lp) > bud.LiveProgs {
			lp = lp[:bud.LiveProgs]
		}
		live = tlc.Run(tlc.Opts{SpecDir: SpecDir, Extra: map[string]string{"ExecData.tla": DataModule(lp, nil)},
			Module: "ExecMC", Config: "ExecLive.cfg", Workers: bud.Workers, Timeout: bud.MCTimeout})
		if !live.OK && !live.TimedOut {
			fmt.Println(tailStr(live.Out, 6000))
			fmt.Printf("ERROR: TLC reports %q for the liveness check of the DESIGN model (exit 2).\n", live.Violation)
			return 2
		}
	}

	// ---- C07a beyond the bounded batches: the slot discipline as an inductive invariant (Apalache)
	indOK, indNote := true, ""
	if prop == "C07" {
		sd := rep.Root + "/specs/slots"
		for _, a := range [][]string{
			{"--cinit=ConstInit", "--init=Init", "--inv=IndInv", "--length=0"},
			{"--cinit=ConstInit", "--init=IndInit", "--inv=IndInv", "--length=1"},
			{"--cinit=ConstInit", "--init=IndInit", "--inv=Inv_C07a", "--length=0"},
		} {
			ok, out := tlc.Apalache(sd, "SlotsMC", 5*time.Minute, a...)
			if !ok {
				indOK = false
				indNote = tailStr(out, 1500)
			}
		}
		if !indOK {
			rp.Note("NOTE: Apalache did not discharge the inductive invariant of Slots.tla (not a verdict about the code):\n%s", indNote)
		}
	}

	// ---- real executions
	items := make([]WorkItem, len(progs))
	for i, p := range progs {
		var seeds []uint64
		for s := 0; s < bud.Seeds; s++ {
			seeds = append(seeds, uint64(seed)*1000003+uint64(i)*97+uint64(s)+1)
		}
		gates := gatesFor(p)
		if p.N > 0 && (p.AcqGate || (tier == "thorough" && i%2 == 0)) {
			// also let the harness decide the order in which tasks take their concurrency slot
			gates = append(gates, "acquire")
		}
		items[i] = WorkItem{Idx: i, Prog: p, DFS: bud.DFS, Seeds: seeds, Procs: []int{1, 2, 4, 16}, Snapshot: true, Gates: gates}
	}
	results := RunPool(items, bud.Workers, 4*time.Minute)
	var traces []TraceItem
	type key struct{ prog, run int }
	where := map[string]key{}
	harnessErrs := 0
	exhausted := 0
	for i, wr := range results {
		if wr.Crash != "" {
			fmt.Printf("ERROR: worker crashed on program %s: %s\n", progs[i].ID, tailStr(wr.Crash, 3000))
			if strings.Contains(wr.Crash, "panic:") && strings.Contains(wr.Crash, "go-task/task") {
				path := rep.WriteReplay(prop, map[string]any{"property": prop, "program": progs[i], "taskfile": progs[i].AllFiles(), "crash": wr.Crash})
				fmt.Printf("NOTE: the executor panicked (replay %s); reported under C16, not %s\n", path, prop)
			}
			harnessErrs++
			continue
		}
		if wr.Exhausted {
			exhausted++
		}
		for k, r := range wr.Runs {
			if r.SetupErr != "" || r.Timeout {
				fmt.Printf("ERROR: program %s run %d: setup=%q timeout=%v\n", progs[i].ID, k, r.SetupErr, r.Timeout)
				harnessErrs++
				continue
			}
			id := fmt.Sprintf("p%d.r%d", i, k)
			where[id] = key{i, k}
			traces = append(traces, TraceItem{ID: id, Prog: i + 1, Evs: r.Trace})
		}
	}
	if harnessErrs > 0 && len(traces) == 0 {
		fmt.Println("ERROR: no trace could be recorded (exit 2)")
		return 2
	}

	// ---- properties evaluated by TLC on every real trace
	pv, err := ValidateProps(progs, traces)
	if err != nil {
		fmt.Println("ERROR:", err)
		return 2
	}
	// ---- conformance of the real traces with the model of the pinned implementation
	var confTraces []TraceItem
	maxConf := 400
	if tier == "thorough" {
		maxConf = 4000
	}
	for _, t := range traces {
		if len(confTraces) < maxConf && len(t.Evs) <= 60 && !IsCyclic(progs[t.Prog-1]) {
			confTraces = append(confTraces, t)
		}
	}
	confBudget := 6 * time.Minute
	if tier == "thorough" {
		confBudget = 15 * time.Minute
	}
	mv := ValidateModelParallel(progs, confTraces, "ExecTrace.cfg", bud.Workers, time.Now().Add(confBudget))
	if mv.Err != nil {
		fmt.Printf("ERROR: conformance validation failed: %v\n", mv.Err)
		return 2
	}
	if mv.Unchecked > 0 {
		rp.Note("NOTE: %d of %d traces were not validated against Exec.tla within the time budget (slow single traces: %v)", mv.Unchecked, len(confTraces), mv.Slow)
	}
	if mv.Accepted+len(mv.Rejected) == 0 && len(confTraces) > 0 {
		fmt.Println("ERROR: no trace could be validated against Exec.tla within the time budget (exit 2)")
		return 2
	}
	for _, nc := range mv.Rejected {
		k := where[nc.ID]
		rp.Note("NONCONFORMANCE: program %s trace %s is not a behaviour of Exec.tla (explained %d of %d events): %s",
			progs[k.prog].ID, nc.ID, nc.Pos, nc.Len, TraceString(results[k.prog].Runs[k.run].Trace))
	}

	// ---- verdicts
	type hit struct {
		sig string
		id  string
	}
	seenSig := map[string]int{}
	distinctNT := map[string]bool{}
	var samples []any
	for _, t := range traces {
		k := where[t.ID]
		if nontrivial(prop, progs[k.prog], t.Evs) {
			distinctNT[TraceString(t.Evs)+progs[k.prog].ID] = true
			if len(samples) < 4 {
				samples = append(samples, map[string]any{"program": progs[k.prog].ID, "trace": TraceString(t.Evs)})
			}
		}
		for _, v := range pv.ByTrace[t.ID] {
			if v.Prop != prop {
				continue
			}
			seenSig[v.Sig]++
			if seenSig[v.Sig] > 1 {
				continue // one replay per signature
			}
			r := results[k.prog].Runs[k.run]
			bundle := replayBundle{Property: prop, Sig: v.Sig, Program: progs[k.prog], Taskfile: progs[k.prog].AllFiles(),
				Release: r.Released, Gates: items[k.prog].Gates, Trace: r.Trace, Pretty: TraceString(r.Trace)}
			// confirm by re-execution with the same release order
			rr := Run(Job{Prog: progs[k.prog], Script: r.Released, Gates: items[k.prog].Gates, Snapshot: true}, "/dev/shm")
			pv2, err2 := ValidateProps([]*Program{progs[k.prog]}, []TraceItem{{ID: "re", Prog: 1, Evs: rr.Trace}})
			if err2 == nil {
				for _, v2 := range pv2.ByTrace["re"] {
					if v2.Prop == prop && v2.Sig == v.Sig {
						bundle.Confirmed = true
					}
				}
			}
			if f := kf.Open(prop, v.Sig); f != nil {
				rp.KnownFinding(f)
				continue
			}
			if !bundle.Confirmed {
				// scheduling inside the executor that the harness cannot fix may differ; try a few more times
				for n := 0; n < 5 && !bundle.Confirmed; n++ {
					rr = Run(Job{Prog: progs[k.prog], Script: r.Released, Gates: items[k.prog].Gates, Snapshot: true}, "/dev/shm")
					if pv3, e3 := ValidateProps([]*Program{progs[k.prog]}, []TraceItem{{ID: "re", Prog: 1, Evs: rr.Trace}}); e3 == nil {
						for _, v3 := range pv3.ByTrace["re"] {
							if v3.Prop == prop && v3.Sig == v.Sig {
								bundle.Confirmed = true
							}
						}
					}
				}
			}
			path := rep.WriteReplay(prop, bundle)
			bundle.Repro = fmt.Sprintf("%s/run.sh %s --replay %s", rep.Root, prop, path)
			if bundle.Confirmed {
				rp.Note("violation %s/%s on program %s: %s", prop, v.Sig, progs[k.prog].ID, TraceString(r.Trace))
				rp.Violation(path)
			} else {
				rp.Note("NOTE: %s/%s observed once on %s but not reproduced in 6 re-executions (recorded in %s, not reported)", prop, v.Sig, progs[k.prog].ID, path)
			}
		}
	}

	// ---- CLI leg (C03, C13): the exit status of the task binary, with and without --exit-code, must be
	// one the in-process runs of the same program produced (cmd/task maps the error to the status)
	cliRuns, cliBad := 0, 0
	if prop == "C03" || prop == "C13" {
		type rc struct{ code, xcode int }
		for i, wr := range results {
			// only programs whose release orders were enumerated completely: the set of outcomes is then the full set
			if wr.Crash != "" || !wr.Exhausted || IsCyclic(progs[i]) || len(progs[i].Roots) != 1 {
				continue
			}
			// the enumeration of release orders only yields the full set of outcomes when nothing else is raced:
			// no concurrency limit (the order of taking slots is not a probe) and no deduplicated task (registration
			// versus cancellation)
			if progs[i].N != 0 || len(gatesFor(progs[i])) > 0 {
				continue
			}
			seenRC := map[rc]bool{}
			dl := false
			for _, r := range wr.Runs {
				for _, e := range r.Trace {
					if e.E == "R" {
						seenRC[rc{e.Code, e.XCode}] = true
					}
					if e.E == "DL" {
						dl = true
					}
				}
			}
			if dl || len(seenRC) == 0 || (i >= nCore && i%3 != 0) {
				continue
			}
			for _, x := range []bool{false, true} {
				code, out, err := RunCLI(progs[i], x)
				if err != nil {
					continue
				}
				cliRuns++
				ok := false
				for k := range seenRC {
					want := k.code
					if x {
						want = k.xcode
					}
					if want == code {
						ok = true
					}
				}
				if !ok {
					// scheduling inside the executor that the harness does not control could produce an
					// outcome outside the enumerated set: insist that the mismatch is stable
					for n := 0; n < 4 && !ok; n++ {
						c2, _, e2 := RunCLI(progs[i], x)
						if e2 != nil {
							ok = true
							break
						}
						for k := range seenRC {
							want := k.code
							if x {
								want = k.xcode
							}
							if want == c2 {
								ok = true
							}
						}
					}
				}
				if !ok {
					cliBad++
					sig := fmt.Sprintf("cli-exit-status:exit-code-flag=%v", x)
					seenSig[sig]++
					if seenSig[sig] > 1 {
						continue
					}
					if f := kf.Open(prop, sig); f != nil {
						rp.KnownFinding(f)
						continue
					}
					path := rep.WriteReplay(prop, map[string]any{"property": prop, "sig": sig, "program": progs[i], "taskfile": progs[i].AllFiles(), "exit_code_flag": x,
						"cli_exit": code, "in_process_returns": fmt.Sprint(seenRC), "output": out})
					rp.Note("violation %s/%s on program %s: the CLI exits %d, the Executor returned %v", prop, sig, progs[i].ID, code, seenRC)
					rp.Violation(path)
				}
			}
		}
	}

	// ---- evidence
	if len(samples) == 0 && len(traces) > 0 {
		samples = append(samples, map[string]any{"trace": TraceString(traces[0].Evs)})
	}
	ev := rep.Evidence{PropertyID: prop, Tier: tier, Seed: seed, Level: "model_checking",
		Coverage: map[string]any{
			"states": mc.Distinct, "transitions": mc.Generated,
			"traces_validated_against_impl": len(traces),
			"samples": samples,
			"evaluations": len(traces), "distinct_nontrivial": len(distinctNT),
			"rule": "programs: hand-written core scenarios + seeded sample from the " + prop + " profile; schedules: depth-first enumeration of release orders of blocked probes and gates (cap per program) + seeded random orders; a trace is non-trivial when it exercises the property's antecedent (e.g. C01: a task with deps ran commands); distinct = different program or event sequence",
			"programs": len(progs), "programs_model_checked": len(mcProgs), "programs_with_all_release_orders_enumerated": exhausted,
			"mc_design_ok": mc.OK, "mc_timed_out": mc.TimedOut, "liveness_states": live.Distinct, "liveness_ok": live.OK,
			"conformance_traces": len(confTraces), "conformance_accepted": mv.Accepted, "conformance_rejected": len(mv.Rejected), "conformance_unchecked": mv.Unchecked, "conformance_states": mv.States,
			"props_eval_states": pv.States,
			"violation_signatures": seenSig, "harness_errors": harnessErrs, "cli_runs": cliRuns, "cli_mismatches": cliBad, "slots_inductive_invariant_discharged_by_apalache": prop == "C07" && indOK,
			"exhaustive": false,
		},
		Assumptions: []string{
			"probe granularity: interleavings inside one shell command are not explored",
			"all commands are built-ins of the embedded interpreter (no sub-processes, no signals)",
			"bounded programs (<= 5 tasks, <= 12 probe instances) and the stated schedule caps",
			"quiescence is detected by sampling goroutine states",
		},
		WallS: time.Since(t0).Seconds(), Violations: rp.Violations}
	if err := ev.Write(); err != nil {
		fmt.Println("ERROR: cannot write evidence:", err)
		return 2
	}
	fmt.Printf("%s %s: %d programs, %d real traces (%d non-trivial), MC %d distinct states (ok=%v), conformance %d/%d accepted (%d unchecked), %d violation(s), %.1fs\n",
		prop, tier, len(progs), len(traces), len(distinctNT), mc.Distinct, mc.OK, mv.Accepted, len(confTraces), mv.Unchecked, rp.Violations, time.Since(t0).Seconds())
	if rp.Violations > 0 {
		return 1
	}
	return 0
}

func tailStr(s string, n int) string {
	if len(s) > n {
		return s[len(s)-n:]
	}
	return s
}

// ValidateModelParallel splits the traces over several TLC processes.
func ValidateModelParallel(progs []*Program, traces []TraceItem, cfg string, workers int, deadline time.Time) ModelVerdict {
	if len(traces) == 0 {
		return ModelVerdict{}
	}
	chunks := workers / 4 // every process may grow to several GB: four at a time
	if chunks < 1 {
		chunks = 1
	}
	if chunks > len(traces) {
		chunks = len(traces)
	}
	out := make([]ModelVerdict, chunks)
	done := make(chan int, chunks)
	for c := 0; c < chunks; c++ {
		go func(c int) {
			var part []TraceItem
			for i := c; i < len(traces); i += chunks {
				part = append(part, traces[i])
			}
			out[c] = ValidateModel(progs, part, cfg, deadline)
			done <- c
		}(c)
	}
	for c := 0; c < chunks; c++ {
		<-done
	}
	var mv ModelVerdict
	for _, o := range out {
		mv.Accepted += o.Accepted
		mv.Rejected = append(mv.Rejected, o.Rejected...)
		mv.States += o.States
		mv.Runs += o.Runs
		mv.Unchecked += o.Unchecked
		mv.Slow = append(mv.Slow, o.Slow...)
		if o.Wall > mv.Wall {
			mv.Wall = o.Wall
		}
		if o.Err != nil {
			mv.Err = o.Err
		}
	}
	return mv
}

// ReplayExec re-executes a replay bundle and reports whether the violation shows again.
func ReplayExec(path string) int {
	b, err := os.ReadFile(path)
	if err != nil {
		fmt.Println("ERROR:", err)
		return 2
	}
	var rb replayBundle
	if err := json.Unmarshal(b, &rb); err != nil {
		fmt.Println("ERROR:", err)
		return 2
	}
	for n := 0; n < 6; n++ {
		rr := Run(Job{Prog: rb.Program, Script: rb.Release, Gates: rb.Gates, Snapshot: true}, "/dev/shm")
		pv, err := ValidateProps([]*Program{rb.Program}, []TraceItem{{ID: "re", Prog: 1, Evs: rr.Trace}})
		if err != nil {
			fmt.Println("ERROR:", err)
			return 2
		}
		fmt.Println(TraceString(rr.Trace), pv.ByTrace["re"])
		for _, v := range pv.ByTrace["re"] {
			if v.Prop == rb.Property && v.Sig == rb.Sig {
				fmt.Printf("VIOLATION property=%s replay=%s\n", rb.Property, path)
				return 1
			}
		}
	}
	fmt.Println("not reproduced")
	return 0
}

// GenNth reproduces the idx-th sampled program of a check run (debugging aid).
func GenNth(prop string, seed int64, idx int) *Program {
	rng := rand.New(rand.NewSource(seed*7919 + int64(len(prop))*104729 + int64(prop[2])*31))
	opts := Profile(prop)
	var p *Program
	for i := 0; i <= idx; i++ {
		p = Gen(rng, opts, fmt.Sprintf("g%d-s%d", i, seed))
	}
	return p
}
