package execfam

import (
	"bytes"
	"context"
	"os/exec"
	"time"
	"errors"
	"fmt"
	"io"
	"os"
	"path/filepath"
	"runtime"
	"strings"
	"sync"

	"github.com/go-task/task/v3"
	taskerrors "github.com/go-task/task/v3/errors"
	"github.com/go-task/task/v3/taskfile/ast"
	"mvdan.cc/sh/v3/interp"

	"verifharness/probe"
	"verifharness/rep"
)

// Job is one real execution: a program and a release policy.
type Job struct {
	Prog     *Program `json:"prog"`
	Prefix   []int    `json:"prefix,omitempty"` // DFS choice vector
	Seed     uint64   `json:"seed,omitempty"`   // >0: random release order
	Script   []string `json:"script,omitempty"` // preferred release order (probe keys)
	Procs    int      `json:"procs,omitempty"`
	Snapshot bool     `json:"snapshot,omitempty"`
	Gates    []string `json:"gates,omitempty"` // internal points to gate: dedup, acquire (needs the verif build tag)
}

// Ev is one observable event of a run, in the form the trace specs consume.
type Ev struct {
	E    string `json:"e"`              // B E R Q DL
	P    string `json:"p,omitempty"`    // printed call path
	T    string `json:"t,omitempty"`    // task
	I    int    `json:"i,omitempty"`    // declared command index
	Item string `json:"item,omitempty"` // for-loop item
	V    string `json:"v,omitempty"`    // rendered V
	XC   string `json:"xc,omitempty"`   // rendered EXIT_CODE (defer probes)
	Dup  bool   `json:"dup,omitempty"`
	// R
	Class string   `json:"class,omitempty"`
	Code  int      `json:"code,omitempty"`  // TaskError code, 1 for generic errors, 0 for nil
	XCode int      `json:"xcode,omitempty"` // exit status with --exit-code semantics
	Msg   string   `json:"msg,omitempty"`
	Set   []string `json:"set,omitempty"` // Q: keys of blocked probes
}

func (e Ev) Key() string { return fmt.Sprintf("%s|%s|%d|%s", e.P, e.T, e.I, e.Item) }

type Result struct {
	Job      Job     `json:"job"`
	Trace    []Ev    `json:"trace"`
	Taken    []int   `json:"taken"`
	Alts     []int   `json:"alts"`
	Deadlock bool    `json:"deadlock,omitempty"`
	Timeout  bool    `json:"timeout,omitempty"`
	SetupErr string  `json:"setuperr,omitempty"`
	Stderr   string  `json:"stderr,omitempty"`
	Miss     int     `json:"miss,omitempty"`
	Released []string `json:"released,omitempty"` // raw ids in release order (probes and gates)
	Raw      []string `json:"raw,omitempty"`
}

func parseProbe(id string) Ev {
	dup := strings.HasSuffix(id, "#dup")
	id = strings.TrimSuffix(id, "#dup")
	f := strings.Split(id, "|")
	ev := Ev{Dup: dup}
	if len(f) >= 7 {
		ev.P, ev.T = f[1], f[2]
		fmt.Sscanf(f[3], "%d", &ev.I)
		ev.Item, ev.V, ev.XC = f[4], f[5], f[6]
	}
	return ev
}

// ClassifyErr maps Run's error to (class, code, xcode).
func ClassifyErr(err error) (string, int, int, string) {
	if err == nil {
		return "nil", 0, 0, ""
	}
	class := fmt.Sprintf("%T", err)
	code, xcode := 1, 1
	var te taskerrors.TaskError
	if t, ok := err.(taskerrors.TaskError); ok {
		te = t
		code, xcode = te.Code(), te.Code()
	}
	if tre, ok := err.(*taskerrors.TaskRunError); ok {
		xcode = tre.TaskExitCode()
	}
	// what is inside, for diagnostics
	inner := ""
	if c, ok := interp.IsExitStatus(err); ok {
		inner = fmt.Sprintf("exit:%d", c)
	} else if errors.Is(err, context.Canceled) {
		inner = "canceled"
	} else {
		var t2 taskerrors.TaskError
		if u := errors.Unwrap(err); u != nil && errors.As(u, &t2) {
			inner = fmt.Sprintf("code:%d", t2.Code())
		}
	}
	return class, code, xcode, inner
}

type lockedBuf struct {
	mu sync.Mutex
	b  strings.Builder
}

func (l *lockedBuf) Write(p []byte) (int, error) {
	l.mu.Lock()
	defer l.mu.Unlock()
	if l.b.Len() < 1<<16 {
		l.b.Write(p)
	}
	return len(p), nil
}

// Run executes one job against the real Executor.
func init() {
	// the call variables V and W also exist in the process environment: call variables win, and a variable is
	// part of "the set of variable values" of a call whether or not the environment has one of the same name
	os.Setenv("V", "v-from-the-environment")
	os.Setenv("W", "w-from-the-environment")
}

func Run(job Job, scratch string) (res Result) {
	res.Job = job
	p := job.Prog
	dir, err := os.MkdirTemp(scratch, "x")
	if err != nil {
		res.SetupErr = err.Error()
		return
	}
	defer os.RemoveAll(dir)
	for fn, txt := range p.Files() {
		if err := os.WriteFile(filepath.Join(dir, fn), []byte(txt), 0o644); err != nil {
			res.SetupErr = err.Error()
			return
		}
	}
	if job.Procs > 0 {
		defer runtime.GOMAXPROCS(runtime.GOMAXPROCS(job.Procs))
	}
	sink := probe.NewSink()
	stderr := &lockedBuf{}
	e := task.NewExecutor(
		task.WithDir(dir),
		task.WithStdout(sink),
		task.WithStderr(stderr),
		task.WithStdin(strings.NewReader("")),
		task.WithConcurrency(p.N),
		task.WithParallel(p.Parallel),
		task.WithForce(p.Force),
		task.WithForceAll(p.ForceAll),
		task.WithAssumeYes(p.Yes),
		task.WithTempDir(task.TempDir{Remote: filepath.Join(dir, ".task"), Fingerprint: filepath.Join(dir, ".task")}),
		task.WithVersionCheck(false),
	)
	if err := e.Setup(); err != nil {
		res.SetupErr = err.Error()
		return
	}
	var calls []*task.Call
	for k, r := range p.Roots {
		vars := ast.NewVars()
		if t := p.Tasks[r.Task]; t == nil || t.run() != "when_changed" {
			vars.Set("P", ast.Var{Value: fmt.Sprintf("r%d", k+1)})
		}
		if strings.Contains(r.V, "+") {
			f := strings.SplitN(r.V, "+", 2)
			vars.Set("V", ast.Var{Value: f[0]})
			vars.Set("W", ast.Var{Value: f[1]})
		} else {
			vars.Set("V", ast.Var{Value: r.V})
			vars.Set("W", ast.Var{Value: ""})
		}
		calls = append(calls, &task.Call{Task: r.Task, Vars: vars})
	}
	if len(job.Gates) > 0 && HooksAvailable {
		gated := map[string]bool{}
		for _, g := range job.Gates {
			gated[g] = true
		}
		setHook(func(point string, t *ast.Task) {
			if !gated[point] {
				return
			}
			pv, vv := "", ""
			if t != nil && t.Vars != nil {
				if x, ok := t.Vars.Get("P"); ok {
					pv = fmt.Sprint(x.Value)
				}
				if x, ok := t.Vars.Get("V"); ok {
					vv = fmt.Sprint(x.Value)
				}
			}
			name := ""
			if t != nil {
				name = t.Task
			}
			sink.Gate(fmt.Sprintf("%s|%s|%s|%s", point, pv, name, vv))
		})
		defer setHook(nil)
	}
	done := make(chan struct{})
	var runErr error
	go func() {
		defer close(done)
		runErr = e.Run(context.Background(), calls...)
	}()
	var ch probe.Chooser
	var pc *probe.PrefixChooser
	var sc *probe.ScriptChooser
	switch {
	case len(job.Script) > 0:
		sc = &probe.ScriptChooser{Order: job.Script}
		ch = sc
	case job.Seed > 0:
		ch = &probe.RandChooser{S: job.Seed*2654435761 + 88172645463325252}
	default:
		pc = &probe.PrefixChooser{Prefix: job.Prefix}
		ch = pc
	}
	out := probe.Drive(sink, done, ch, 4000, job.Snapshot)
	res.Deadlock, res.Timeout = out.Deadlock, out.Timeout
	if pc != nil {
		res.Taken, res.Alts = pc.Taken, pc.Alts
	}
	if sc != nil {
		res.Miss = sc.Miss
	}
	for _, ev := range sink.Log() {
		if ev.E == "E" || ev.E == "GE" {
			res.Released = append(res.Released, ev.ID)
		}
		switch ev.E {
		case "B", "E":
			x := parseProbe(ev.ID)
			x.E = ev.E
			x.T = p.Canon(x.T)
			res.Trace = append(res.Trace, x)
		case "GB", "GE":
			f := strings.Split(strings.TrimSuffix(strings.ReplaceAll(ev.ID, "#dup", ""), "\n"), "|")
			if len(f) >= 5 {
				res.Trace = append(res.Trace, Ev{E: ev.E, Msg: f[1], P: f[2], T: p.Canon(f[3]), V: f[4]})
			}
		case "Q":
			var ks []string
			for _, id := range ev.Set {
				if strings.HasPrefix(id, "G|") {
					continue
				}
				x := parseProbe(id)
				x.T = p.Canon(x.T)
				ks = append(ks, x.Key())
			}
			res.Trace = append(res.Trace, Ev{E: "Q", Set: ks})
		case "DL":
			res.Trace = append(res.Trace, Ev{E: "DL"})
		}
	}
	if out.Returned {
		class, code, xcode, inner := ClassifyErr(runErr)
		res.Trace = append(res.Trace, Ev{E: "R", Class: class, Code: code, XCode: xcode, Msg: inner})
	}
	res.Stderr = stderr.b.String()
	res.Raw = sink.Raw
	if !out.Returned {
		// leave the stuck goroutines parked; they hold nothing global
		_ = io.Discard
	}
	return
}


// RunCLI runs the program through the task binary (probes do not block: stdout is discarded) and
// returns the exit status; exitCode adds --exit-code.
func RunCLI(p *Program, exitCode bool) (int, string, error) {
	dir, err := os.MkdirTemp("/dev/shm", "xc")
	if err != nil {
		return 0, "", err
	}
	defer os.RemoveAll(dir)
	for fn, txt := range p.Files() {
		if err := os.WriteFile(filepath.Join(dir, fn), []byte(txt), 0o644); err != nil {
			return 0, "", err
		}
	}
	r := p.Roots[0]
	args := []string{r.Task, "P=r1"}
	if strings.Contains(r.V, "+") {
		f := strings.SplitN(r.V, "+", 2)
		args = append(args, "V="+f[0], "W="+f[1])
	} else {
		args = append(args, "V="+r.V, "W=")
	}
	if p.N > 0 {
		args = append(args, "--concurrency", fmt.Sprint(p.N))
	}
	if p.Force {
		args = append(args, "--force")
	}
	if p.ForceAll {
		args = append(args, "--force-all")
	}
	if p.Yes {
		args = append(args, "--yes")
	}
	if exitCode {
		args = append(args, "--exit-code")
	}
	ctx, cancel := context.WithTimeout(context.Background(), 30*time.Second)
	defer cancel()
	cmd := exec.CommandContext(ctx, rep.Root+"/.work/bin/task", args...)
	cmd.Dir = dir
	if p.Force || p.ForceAll {
		// --force for the directly called task only / --force-all exist under the gentle-force experiment
		cmd.Env = append(os.Environ(), "TASK_X_GENTLE_FORCE=1")
	}
	cmd.Cancel = func() error { return cmd.Process.Kill() }
	var out bytes.Buffer
	cmd.Stderr = &out
	err = cmd.Run()
	if ctx.Err() != nil {
		return 0, "", fmt.Errorf("timeout")
	}
	if err != nil {
		if ee, ok := err.(*exec.ExitError); ok {
			return ee.ExitCode(), out.String(), nil
		}
		return 0, "", err
	}
	return 0, out.String(), nil
}
