package execfam

import (
	"fmt"
	"math/rand"
)

// GenOpts steers the seeded program sampler; every property focus has its own profile.
type GenOpts struct {
	MinTasks, MaxTasks int
	MaxDeps, MaxCmds   int
	PFail, PIgnCmd, PIgnTask          float64
	POnce, PWhenChanged               float64
	PGuard                            float64
	Guards                            []string
	PDefer, PDeferCall, PFor, PCall   float64
	PPassV                            float64
	Ns                                []int
	PParallel, PForce, PForceAll, PYes float64
	PTwoRoots                         float64
	MaxProbes                         int // bound on the number of probe instances of one run
	ExitCodes                         []int
	PEnvUse                           float64
	PPair                             float64 // probability that a passed value is a pair of variables
}

var names = []string{"a", "b", "c", "d", "e", "f", "g", "h"}
var vvals = []string{"one", "two"}
var pairvals = []string{"one+two", "two+one", "one+one"}
var mats = [][][]string{{{"1", "2"}, {"x", "y"}}, {{"p"}, {"q", "r"}}, {{"a", "b"}, {"c"}, {"d", "e"}}, {{"1", "2", "3"}}, {{"a"}, {"b"}, {"c"}, {"1", "2"}}, {{"p", "q"}, {"r"}, {"s"}, {"t"}, {"u", "v"}}}
var items = [][]string{{"one", "two"}, {"two", "one"}, {"x", "y"}, {"one"}, {"x", "one", "two"}, {"x", "", "y"}, {"p-q", "r>s", "one"}, {"one", ""}}

func pick[T any](r *rand.Rand, xs []T) T { return xs[r.Intn(len(xs))] }

func genCS(r *rand.Rand, o GenOpts, callee string, allowFor bool) CallSite {
	cs := CallSite{Task: callee}
	switch {
	case allowFor && r.Float64() < o.PFor:
		if r.Float64() < 0.35 {
			cs.Mat = pick(r, mats)
		} else {
			cs.For = append([]string(nil), pick(r, items)...)
		}
	case r.Float64() < o.PPassV:
		cs.V = pick(r, []string{"one", "two", "$"})
		if o.PPair > 0 && r.Float64() < o.PPair {
			cs.V = pick(r, pairvals)
		}
	}
	return cs
}

// Gen samples one acyclic program.
func Gen(r *rand.Rand, o GenOpts, id string) *Program {
	for attempt := 0; ; attempt++ {
		n := o.MinTasks + r.Intn(o.MaxTasks-o.MinTasks+1)
		p := &Program{ID: id, Tasks: map[string]*Task{}}
		for i := 0; i < n; i++ {
			p.Order = append(p.Order, names[i])
		}
		for i := 0; i < n; i++ {
			t := &Task{Run: "always"}
			x := r.Float64()
			if i > 0 && x < o.POnce {
				t.Run = "once"
			} else if i > 0 && x < o.POnce+o.PWhenChanged {
				t.Run = "when_changed"
				if r.Float64() < o.PEnvUse {
					t.VUse = "env"
				}
			}
			if r.Float64() < o.PIgnTask {
				t.Ign = true
			}
			if r.Float64() < 0.15 {
				t.Label = true
			}
			if len(o.Guards) > 0 && r.Float64() < o.PGuard {
				t.Guard = pick(r, o.Guards)
				if t.Guard == "internal" && i != 0 {
					t.Guard = pick(r, []string{"requires", "precond"})
				}
			}
			later := n - i - 1
			if later > 0 {
				nd := r.Intn(o.MaxDeps + 1)
				for j := 0; j < nd; j++ {
					t.Deps = append(t.Deps, genCS(r, o, names[i+1+r.Intn(later)], true))
				}
			}
			nc := 1 + r.Intn(o.MaxCmds)
			if later > 0 && len(t.Deps) > 0 && r.Float64() < 0.15 {
				nc = 0
			}
			for j := 0; j < nc; j++ {
				x := r.Float64()
				switch {
				case later > 0 && x < o.PCall:
					cs := genCS(r, o, names[i+1+r.Intn(later)], true)
					t.Cmds = append(t.Cmds, Cmd{K: "call", CS: &cs})
				case x < o.PCall+o.PDefer:
					c := Cmd{K: "dsh"}
					if r.Float64() < 0.3 {
						c.X = pick(r, o.ExitCodes)
					}
					t.Cmds = append(t.Cmds, c)
				case later > 0 && x < o.PCall+o.PDefer+o.PDeferCall:
					cs := genCS(r, o, names[i+1+r.Intn(later)], false)
					t.Cmds = append(t.Cmds, Cmd{K: "dcall", CS: &cs})
				default:
					c := Cmd{K: "sh"}
					if r.Float64() < o.PFail {
						c.X = pick(r, o.ExitCodes)
						if r.Float64() < o.PIgnCmd {
							c.Ign = true
						}
					}
					if t.Run != "when_changed" && r.Float64() < o.PFor/2 {
						if r.Float64() < 0.35 {
							c.Mat = pick(r, mats)
						} else {
							c.For = append([]string(nil), pick(r, items)...)
						}
					}
					t.Cmds = append(t.Cmds, c)
				}
			}
			p.Tasks[names[i]] = t
		}
		p.Roots = []Root{{Task: "a"}}
		if r.Float64() < o.PPassV {
			p.Roots[0].V = pick(r, vvals)
		}
		if n > 1 && r.Float64() < o.PTwoRoots {
			p.Roots = append(p.Roots, Root{Task: names[1+r.Intn(n-1)], V: pick(r, []string{"", "one", "two"})})
			p.Parallel = r.Float64() < o.PParallel
		}
		p.N = pick(r, o.Ns)
		p.Force = r.Float64() < o.PForce
		p.ForceAll = r.Float64() < o.PForceAll
		p.Yes = r.Float64() < o.PYes
		Normalize(p)
		if sz := Size(p); sz >= 2 && sz <= o.MaxProbes {
			if r.Float64() < 0.2 {
				Includize(r, p, o.MaxProbes)
			}
			return p
		}
		if attempt > 200 {
			return p
		}
	}
}

// Includize moves some non-root tasks into an included Taskfile (namespace n) and, when they are few, includes
// that file a second time (namespace m): n:x and m:x are different tasks with the same definition.
func Includize(r *rand.Rand, p *Program, maxProbes int) {
	isRoot := map[string]bool{}
	for _, rt := range p.Roots {
		isRoot[rt.Task] = true
	}
	var sel []string
	for _, t := range p.Order {
		if !isRoot[t] && r.Float64() < 0.5 {
			sel = append(sel, t)
		}
	}
	if len(sel) == 0 {
		return
	}
	ren := map[string]string{}
	for _, t := range sel {
		ren[t] = "n:" + t
	}
	renameTasks(p, ren)
	p.NS = []string{"n"}
	leafOnce := true // a shared once definition is only mirrored when it is a leaf (its callees would print either namespace)
	for _, t := range sel {
		tk := p.Tasks["n:"+t]
		if tk.run() == "once" {
			if len(tk.Deps) > 0 {
				leafOnce = false
			}
			for _, c := range tk.Cmds {
				if c.CS != nil {
					leafOnce = false
				}
			}
		}
	}
	if len(sel) <= 2 && leafOnce && r.Float64() < 0.5 {
		// the mirror copy, called from the first root
		mir := map[string]string{}
		for _, t := range sel {
			mir["n:"+t] = "m:" + t
		}
		for _, t := range sel {
			c := cloneTask(p.Tasks["n:"+t])
			renameRefs(c, mir)
			p.Tasks["m:"+t] = c
			p.Order = append(p.Order, "m:"+t)
		}
		root := p.Tasks[p.Roots[0].Task]
		root.Cmds = append(root.Cmds, Cmd{K: "call", CS: &CallSite{Task: "m:" + sel[0]}})
		p.NS = []string{"n", "m"}
		if Size(p) > maxProbes {
			// too large: undo the mirror
			root.Cmds = root.Cmds[:len(root.Cmds)-1]
			for _, t := range sel {
				delete(p.Tasks, "m:"+t)
			}
			p.Order = p.Order[:len(p.Order)-len(sel)]
			p.NS = []string{"n"}
		}
	}
}

func cloneTask(t *Task) *Task {
	c := *t
	c.Deps = append([]CallSite(nil), t.Deps...)
	c.Cmds = append([]Cmd(nil), t.Cmds...)
	for i := range c.Cmds {
		if c.Cmds[i].CS != nil {
			cs := *c.Cmds[i].CS
			c.Cmds[i].CS = &cs
		}
	}
	return &c
}

func renameRefs(t *Task, ren map[string]string) {
	for i := range t.Deps {
		if n, ok := ren[t.Deps[i].Task]; ok {
			t.Deps[i].Task = n
		}
	}
	for i := range t.Cmds {
		if cs := t.Cmds[i].CS; cs != nil {
			if n, ok := ren[cs.Task]; ok {
				cs.Task = n
			}
		}
	}
}

func renameTasks(p *Program, ren map[string]string) {
	for i, t := range p.Order {
		if n, ok := ren[t]; ok {
			p.Order[i] = n
			p.Tasks[n] = p.Tasks[t]
			delete(p.Tasks, t)
		}
	}
	for _, t := range p.Tasks {
		renameRefs(t, ren)
	}
	for i := range p.Roots {
		if n, ok := ren[p.Roots[i].Task]; ok {
			p.Roots[i].Task = n
		}
	}
}

// Normalize removes constructs the harness cannot identify uniquely.
func Normalize(p *Program) {
	for _, name := range p.Order {
		t := p.Tasks[name]
		for i := range t.Cmds {
			c := &t.Cmds[i]
			if c.K == "sh" && t.Run == "when_changed" {
				c.For = nil
				c.Mat = nil
			}
		}
		// a root that is when_changed gets no P; fine. An internal guard only makes sense on roots.
	}
}

// Size estimates the number of probe instances of one complete run (calls expanded, dedup ignored).
func Size(p *Program) int {
	memo := map[string]int{}
	var sz func(t string, depth int) int
	sz = func(name string, depth int) int {
		if depth > 8 {
			return 1000
		}
		if v, ok := memo[name]; ok {
			return v
		}
		t := p.Tasks[name]
		n := 0
		prod := func(m [][]string) int {
			n := 1
			for _, r := range m {
				n *= len(r)
			}
			return n
		}
		mult := func(cs *CallSite) int {
			if len(cs.Mat) > 0 {
				return prod(cs.Mat)
			}
			if len(cs.For) > 0 {
				return len(cs.For)
			}
			return 1
		}
		for i := range t.Deps {
			n += mult(&t.Deps[i]) * sz(t.Deps[i].Task, depth+1)
		}
		for i := range t.Cmds {
			c := &t.Cmds[i]
			switch c.K {
			case "sh", "dsh":
				if len(c.Mat) > 0 {
					n += prod(c.Mat)
				} else if len(c.For) > 0 {
					n += len(c.For)
				} else {
					n++
				}
			default:
				n += mult(c.CS) * sz(c.CS.Task, depth+1)
			}
		}
		memo[name] = n
		return n
	}
	total := 0
	for _, r := range p.Roots {
		total += sz(r.Task, 0)
	}
	return total
}

// IsCyclic: some task reaches itself through deps / task: commands.
func IsCyclic(p *Program) bool {
	refs := func(n string) []string {
		var out []string
		t := p.Tasks[n]
		for _, d := range t.Deps {
			out = append(out, d.Task)
		}
		for _, c := range t.Cmds {
			if c.CS != nil {
				out = append(out, c.CS.Task)
			}
		}
		return out
	}
	for _, start := range p.Order {
		seen := map[string]bool{}
		stack := refs(start)
		for len(stack) > 0 {
			n := stack[len(stack)-1]
			stack = stack[:len(stack)-1]
			if n == start {
				return true
			}
			if seen[n] {
				continue
			}
			seen[n] = true
			stack = append(stack, refs(n)...)
		}
	}
	return false
}

// Features lists what a program exercises (for the evidence file).
func Features(p *Program) []string {
	f := map[string]bool{}
	if len(p.NS) > 0 {
		f[fmt.Sprintf("included-x%d", len(p.NS))] = true
	}
	for _, name := range p.Order {
		t := p.Tasks[name]
		if t.Label {
			f["label"] = true
		}
		if len(t.Deps) > 0 {
			f["deps"] = true
		}
		if t.Run == "once" || t.Run == "when_changed" {
			f[t.Run] = true
		}
		if t.Ign {
			f["ign-task"] = true
		}
		if t.Guard != "" && t.Guard != "none" {
			f["guard:"+t.Guard] = true
		}
		for _, d := range t.Deps {
			if len(d.For) > 0 {
				f["for-deps"] = true
			}
		}
		for _, c := range t.Cmds {
			switch c.K {
			case "call":
				f["call"] = true
				if len(c.CS.For) > 0 {
					f["for-call"] = true
				}
			case "dsh":
				f["defer"] = true
			case "dcall":
				f["defer-call"] = true
			case "sh":
				if c.X != 0 {
					f["fail"] = true
					if c.Ign {
						f["ign-cmd"] = true
					}
				}
				if len(c.For) > 0 {
					f["for-cmd"] = true
				}
			}
		}
	}
	if p.N > 0 {
		f[fmt.Sprintf("N=%d", p.N)] = true
	}
	if p.Parallel {
		f["parallel"] = true
	}
	if p.Force || p.ForceAll {
		f["force"] = true
	}
	var out []string
	for k := range f {
		out = append(out, k)
	}
	return out
}

func sh(x int) Cmd                 { return Cmd{K: "sh", X: x} }
func call(t, v string) Cmd         { return Cmd{K: "call", CS: &CallSite{Task: t, V: v}} }
func dep(t string) CallSite        { return CallSite{Task: t} }
func depv(t, v string) CallSite    { return CallSite{Task: t, V: v} }
func mk(id string, n int, order []string, tasks map[string]*Task, roots ...Root) *Program {
	if len(roots) == 0 {
		roots = []Root{{Task: order[0]}}
	}
	return &Program{ID: id, Order: order, Tasks: tasks, Roots: roots, N: n}
}

// Core returns hand-written programs that realise the scenarios each property is about.
func Core() []*Program {
	var ps []*Program
	add := func(p *Program) { ps = append(ps, p) }
	for _, n := range []int{0, 1, 2} {
		// diamond over a shared run-once dependency that fails / succeeds
		for _, x := range []int{0, 3} {
			add(mk(fmt.Sprintf("diamond-once-x%d-n%d", x, n), n, []string{"a", "b", "c", "d"}, map[string]*Task{
				"a": {Deps: []CallSite{dep("b"), dep("c")}, Cmds: []Cmd{sh(0)}},
				"b": {Deps: []CallSite{dep("d")}, Cmds: []Cmd{sh(0), sh(0)}},
				"c": {Deps: []CallSite{dep("d")}, Cmds: []Cmd{sh(0)}},
				"d": {Run: "once", Cmds: []Cmd{sh(x), sh(0)}},
			}))
		}
		// shared once task next to a failing sibling of the first caller (early cancellation)
		add(mk(fmt.Sprintf("once-cancel-n%d", n), n, []string{"a", "b", "c", "d", "e"}, map[string]*Task{
			"a": {Deps: []CallSite{dep("b"), dep("c")}, Cmds: []Cmd{sh(0)}},
			"b": {Deps: []CallSite{dep("d"), dep("e")}, Cmds: []Cmd{sh(0)}},
			"c": {Deps: []CallSite{dep("d")}, Cmds: []Cmd{sh(0), sh(0)}},
			"d": {Run: "once", Cmds: []Cmd{sh(0), sh(0)}},
			"e": {Cmds: []Cmd{sh(3)}},
		}))
		// sequential calls sharing a failing once task, caller ignores errors
		add(mk(fmt.Sprintf("seq-once-fail-n%d", n), n, []string{"a", "b", "c", "d"}, map[string]*Task{
			"a": {Ign: true, Cmds: []Cmd{call("b", ""), call("c", "")}},
			"b": {Deps: []CallSite{dep("d")}, Cmds: []Cmd{sh(0)}},
			"c": {Deps: []CallSite{dep("d")}, Cmds: []Cmd{sh(0)}},
			"d": {Run: "once", Cmds: []Cmd{sh(3)}},
		}))
		// the shared once task is cancelled (not failed) next to its first caller; a later caller must not proceed
		add(mk(fmt.Sprintf("seq-once-cancel-n%d", n), n, []string{"a", "b", "c", "d", "e"}, map[string]*Task{
			"a": {Ign: true, Cmds: []Cmd{call("b", ""), call("c", ""), sh(0)}},
			"b": {Deps: []CallSite{dep("d"), dep("e")}, Cmds: []Cmd{sh(0)}},
			"c": {Deps: []CallSite{dep("d")}, Cmds: []Cmd{sh(0)}},
			"d": {Run: "once", Cmds: []Cmd{sh(0), sh(0)}},
			"e": {Cmds: []Cmd{sh(3)}},
		}))
		// nested calls, fail deep, defers on the way
		add(mk(fmt.Sprintf("nested-defer-n%d", n), n, []string{"a", "b", "c"}, map[string]*Task{
			"a": {Cmds: []Cmd{{K: "dsh"}, sh(0), call("b", "one"), sh(0)}},
			"b": {Cmds: []Cmd{{K: "dsh"}, {K: "dsh"}, call("c", "$"), sh(0)}},
			"c": {Cmds: []Cmd{sh(0), {K: "dsh"}, sh(7), sh(0)}},
		}))
		// fan-out witness
		add(mk(fmt.Sprintf("fanout-n%d", n), n, []string{"a", "b", "c", "d"}, map[string]*Task{
			"a": {Deps: []CallSite{dep("b"), dep("c"), dep("d")}, Cmds: []Cmd{sh(0)}},
			"b": {Cmds: []Cmd{sh(0)}}, "c": {Cmds: []Cmd{sh(0), sh(0)}}, "d": {Cmds: []Cmd{sh(0)}},
		}))
		// when_changed called with two values from deps and from cmds
		add(mk(fmt.Sprintf("when-changed-n%d", n), n, []string{"a", "b", "c"}, map[string]*Task{
			"a": {Deps: []CallSite{depv("c", "one"), depv("b", "")}, Cmds: []Cmd{call("c", "two"), call("c", "one"), sh(0)}},
			"b": {Deps: []CallSite{depv("c", "one")}, Cmds: []Cmd{sh(0)}},
			"c": {Run: "when_changed", Cmds: []Cmd{sh(0)}},
		}))
		// for loops over deps and cmds
		add(mk(fmt.Sprintf("for-n%d", n), n, []string{"a", "b"}, map[string]*Task{
			"a": {Deps: []CallSite{{Task: "b", For: []string{"one", "two"}}}, Cmds: []Cmd{{K: "sh", For: []string{"x", "y"}}, {K: "call", CS: &CallSite{Task: "b", For: []string{"two", "one"}}}}},
			"b": {Cmds: []Cmd{sh(0)}},
		}))
	}
	// matrix loops over commands, task calls and deps (row-major order of the declared keys)
	add(mk("matrix", 1, []string{"a", "b"}, map[string]*Task{
		"a": {Deps: []CallSite{{Task: "b", Mat: [][]string{{"p"}, {"q", "r"}}}},
			Cmds: []Cmd{{K: "sh", Mat: [][]string{{"1", "2"}, {"x", "y"}}}, {K: "call", CS: &CallSite{Task: "b", Mat: [][]string{{"a", "b"}, {"c"}, {"d", "e"}}}}, sh(0)}},
		"b": {Cmds: []Cmd{sh(0)}},
	}))
	add(mk("matrix-wide", 0, []string{"a", "b"}, map[string]*Task{
		"a": {Cmds: []Cmd{{K: "sh", Mat: [][]string{{"a"}, {"b"}, {"c"}, {"1", "2"}}}, {K: "call", CS: &CallSite{Task: "b", Mat: [][]string{{"p", "q"}, {"r"}, {"s"}, {"t"}, {"u", "v"}}}}, sh(0)}},
		"b": {Cmds: []Cmd{sh(0)}},
	}))
	// guards in every position
	for _, g := range []string{"platform", "platreq", "requires", "requires2", "enum", "precond", "prompt", "uptodate"} {
		add(mk("guard-root-"+g, 0, []string{"a", "b"}, map[string]*Task{
			"a": {Guard: g, Deps: []CallSite{dep("b")}, Cmds: []Cmd{sh(0)}},
			"b": {Cmds: []Cmd{sh(0)}},
		}, Root{Task: "a", V: "two"}))
		add(mk("guard-dep-"+g, 2, []string{"a", "b", "c"}, map[string]*Task{
			"a": {Deps: []CallSite{depv("b", "two"), dep("c")}, Cmds: []Cmd{sh(0)}},
			"b": {Guard: g, Cmds: []Cmd{sh(0)}},
			"c": {Cmds: []Cmd{sh(0), sh(0)}},
		}))
		add(mk("guard-call-"+g, 0, []string{"a", "b"}, map[string]*Task{
			"a": {Cmds: []Cmd{sh(0), call("b", "two"), sh(0)}},
			"b": {Guard: g, Cmds: []Cmd{sh(0)}},
		}))
		add(mk("guard-once-"+g, 0, []string{"a", "b", "c", "d"}, map[string]*Task{
			"a": {Deps: []CallSite{dep("b"), dep("c")}, Cmds: []Cmd{sh(0)}},
			"b": {Deps: []CallSite{depv("d", "two")}, Cmds: []Cmd{sh(0)}},
			"c": {Deps: []CallSite{depv("d", "two")}, Cmds: []Cmd{sh(0)}},
			"d": {Run: "once", Guard: g, Cmds: []Cmd{sh(0)}},
		}))
	}
	add(mk("guard-internal", 0, []string{"a"}, map[string]*Task{"a": {Guard: "internal", Cmds: []Cmd{sh(0)}}}))
	pf := mk("guard-precond-force", 0, []string{"a"}, map[string]*Task{"a": {Guard: "precond", Cmds: []Cmd{sh(0)}}})
	pf.Force = true
	add(pf)
	pfa := mk("guard-precond-dep-forceall", 0, []string{"a", "b"}, map[string]*Task{
		"a": {Deps: []CallSite{dep("b")}, Cmds: []Cmd{sh(0)}}, "b": {Guard: "precond", Cmds: []Cmd{sh(0)}}})
	pfa.ForceAll = true
	add(pfa)
	py := mk("guard-prompt-yes", 0, []string{"a"}, map[string]*Task{"a": {Guard: "prompt", Cmds: []Cmd{sh(0)}}})
	py.Yes = true
	add(py)
	// deferred task call with variables
	add(mk("defer-call-vars", 0, []string{"a", "b"}, map[string]*Task{
		"a": {Cmds: []Cmd{{K: "dcall", CS: &CallSite{Task: "b", V: "$"}}, sh(0), sh(4)}},
		"b": {Cmds: []Cmd{sh(0)}},
	}, Root{Task: "a", V: "one"}))
	// defers and cancellation by a sibling
	add(mk("defer-cancel", 0, []string{"a", "b", "c"}, map[string]*Task{
		"a": {Deps: []CallSite{dep("b"), dep("c")}, Cmds: []Cmd{sh(0)}},
		"b": {Cmds: []Cmd{{K: "dsh"}, sh(0), {K: "dsh"}, sh(5), sh(0)}},
		"c": {Cmds: []Cmd{sh(3)}},
	}))
	// when_changed whose variable only reaches env
	add(mk("when-changed-env", 0, []string{"a", "b"}, map[string]*Task{
		"a": {Cmds: []Cmd{call("b", "one"), call("b", "two"), call("b", "one"), sh(0)}},
		"b": {Run: "when_changed", VUse: "env", Cmds: []Cmd{sh(0)}},
	}))
	// two variables whose values are swapped between the calls, reaching only env
	add(mk("when-changed-env-pair", 0, []string{"a", "b"}, map[string]*Task{
		"a": {Cmds: []Cmd{call("b", "one+two"), call("b", "two+one"), call("b", "one+one"), call("b", "two+two"), sh(0)}},
		"b": {Run: "when_changed", VUse: "env", Cmds: []Cmd{sh(0)}},
	}))
	add(mk("when-changed-pair-deps", 2, []string{"a", "b", "c"}, map[string]*Task{
		"a": {Deps: []CallSite{depv("b", "one+two"), depv("b", "two+one")}, Cmds: []Cmd{call("c", "x+y"), call("c", "y+x"), sh(0)}},
		"b": {Run: "when_changed", VUse: "env", Cmds: []Cmd{sh(0)}},
		"c": {Run: "when_changed", Cmds: []Cmd{sh(0)}},
	}))
	// a nested call into a task whose dependency fails; with and without ignore_error on the caller
	for _, ign := range []bool{false, true} {
		add(mk(fmt.Sprintf("call-dep-fail-ign%v", ign), 0, []string{"a", "b", "c"}, map[string]*Task{
			"a": {Ign: ign, Cmds: []Cmd{sh(0), call("b", ""), sh(0)}},
			"b": {Deps: []CallSite{dep("c")}, Cmds: []Cmd{sh(0)}},
			"c": {Cmds: []Cmd{sh(7)}},
		}))
	}
	// more deps than slots, several of them waiting for one shared task
	for _, n := range []int{2, 3} {
		add(mk(fmt.Sprintf("shared-wait-fanout-n%d", n), n, []string{"a", "b", "c", "d", "e"}, map[string]*Task{
			"a": {Deps: []CallSite{dep("b"), dep("c"), dep("d")}, Cmds: []Cmd{sh(0)}},
			"b": {Deps: []CallSite{dep("e")}, Cmds: []Cmd{sh(0)}},
			"c": {Deps: []CallSite{dep("e")}, Cmds: []Cmd{sh(0)}},
			"d": {Cmds: []Cmd{sh(0)}},
			"e": {Run: "once", Cmds: []Cmd{sh(0)}},
		}))
	}
	// cyclic references: through deps, through task: commands, mixed, and through a run: once task
	add(mk("cycle-deps", 0, []string{"a", "b"}, map[string]*Task{
		"a": {Deps: []CallSite{dep("b")}, Cmds: []Cmd{sh(0)}}, "b": {Deps: []CallSite{dep("a")}, Cmds: []Cmd{sh(0)}}}))
	add(mk("cycle-calls", 2, []string{"a", "b", "c"}, map[string]*Task{
		"a": {Cmds: []Cmd{call("b", "")}}, "b": {Cmds: []Cmd{call("c", "")}}, "c": {Cmds: []Cmd{call("a", "")}}}))
	add(mk("cycle-mixed", 1, []string{"a", "b"}, map[string]*Task{
		"a": {Deps: []CallSite{dep("b")}, Cmds: []Cmd{sh(0)}}, "b": {Cmds: []Cmd{call("a", "")}}}))
	add(mk("cycle-once", 0, []string{"a", "b"}, map[string]*Task{
		"a": {Run: "once", Deps: []CallSite{dep("b")}, Cmds: []Cmd{sh(0)}}, "b": {Deps: []CallSite{dep("a")}, Cmds: []Cmd{sh(0)}}}))
	// a labelled run: once task called with different variables; a failure ignored at task level next to defers;
	// a task with ignore_error whose dependency fails; an enum-guarded task called with an empty value
	add(mk("once-label", 0, []string{"a", "b"}, map[string]*Task{
		"a": {Cmds: []Cmd{call("b", "one"), call("b", "two"), sh(0)}},
		"b": {Run: "once", Label: true, Cmds: []Cmd{sh(0)}},
	}))
	add(mk("ign-task-defer", 0, []string{"a", "b"}, map[string]*Task{
		"a": {Ign: true, Cmds: []Cmd{{K: "dsh"}, sh(3), call("b", ""), {K: "dsh"}, sh(0)}},
		"b": {Cmds: []Cmd{sh(5)}},
	}))
	add(mk("ign-task-dep-fail", 0, []string{"a", "b", "c"}, map[string]*Task{
		"a": {Deps: []CallSite{dep("b")}, Cmds: []Cmd{sh(0)}},
		"b": {Ign: true, Deps: []CallSite{dep("c")}, Cmds: []Cmd{sh(0)}},
		"c": {Cmds: []Cmd{sh(3)}},
	}))
	add(mk("guard-enum-empty", 0, []string{"a", "b"}, map[string]*Task{
		"a": {Deps: []CallSite{depv("b", "")}, Cmds: []Cmd{sh(0)}},
		"b": {Guard: "enum", Cmds: []Cmd{sh(0)}},
	}))
	add(mk("guard-enum-empty-root", 0, []string{"a"}, map[string]*Task{"a": {Guard: "enum", Cmds: []Cmd{sh(0)}}}))
	// tasks of an included file: the same file under two namespaces gives two tasks, each deduplicated on its own;
	// references to the root file from the included one; failures and when_changed through the namespace
	inc := func(pr *Program, ns ...string) *Program { pr.NS = ns; return pr }
	add(inc(mk("inc-once-two-ns", 0, []string{"a", "n:d", "m:d"}, map[string]*Task{
		"a":   {Deps: []CallSite{dep("n:d"), dep("m:d"), dep("n:d")}, Cmds: []Cmd{call("m:d", ""), sh(0)}},
		"n:d": {Run: "once", Cmds: []Cmd{sh(0)}},
		"m:d": {Run: "once", Cmds: []Cmd{sh(0)}},
	}), "n", "m"))
	add(inc(mk("inc-once-vars", 0, []string{"a", "n:d"}, map[string]*Task{
		"a":   {Cmds: []Cmd{call("n:d", "one"), call("n:d", "two"), sh(0)}},
		"n:d": {Run: "once", Label: true, Cmds: []Cmd{sh(0)}},
	}), "n"))
	add(inc(mk("inc-root-ref", 0, []string{"a", "r", "n:x", "n:y"}, map[string]*Task{
		"a":   {Deps: []CallSite{dep("n:x"), dep("r")}, Cmds: []Cmd{sh(0)}},
		"r":   {Run: "once", Cmds: []Cmd{sh(0)}},
		"n:x": {Deps: []CallSite{dep("r"), dep("n:y")}, Cmds: []Cmd{call("n:y", "one"), sh(0)}},
		"n:y": {Run: "when_changed", Cmds: []Cmd{sh(0)}},
	}), "n"))
	add(inc(mk("inc-fail-two-ns", 2, []string{"a", "n:x", "n:y", "m:x", "m:y"}, map[string]*Task{
		"a":   {Deps: []CallSite{dep("n:x")}, Cmds: []Cmd{call("m:x", ""), sh(0)}},
		"n:x": {Deps: []CallSite{dep("n:y")}, Cmds: []Cmd{{K: "dsh"}, sh(0)}},
		"n:y": {Run: "once", Cmds: []Cmd{sh(0)}},
		"m:x": {Deps: []CallSite{dep("m:y")}, Cmds: []Cmd{{K: "dsh"}, sh(0)}},
		"m:y": {Run: "once", Cmds: []Cmd{sh(0)}},
	}), "n", "m"))
	add(inc(mk("inc-when-changed", 0, []string{"a", "n:w"}, map[string]*Task{
		"a":   {Deps: []CallSite{depv("n:w", "one"), depv("n:w", "one"), depv("n:w", "two")}, Cmds: []Cmd{call("n:w", "one"), sh(0)}},
		"n:w": {Run: "when_changed", Cmds: []Cmd{sh(0)}},
	}), "n"))
	add(inc(mk("inc-dep-fails", 0, []string{"a", "n:x"}, map[string]*Task{
		"a":   {Deps: []CallSite{dep("n:x")}, Cmds: []Cmd{sh(0)}},
		"n:x": {Cmds: []Cmd{sh(3), sh(0)}},
	}), "n"))
	// the slot discipline around everything that waits for another task: deferred task calls, calls in loops,
	// skipped (up-to-date / other platform / failed precondition) tasks, failures, all under small limits
	dc := func(t, v string) Cmd { return Cmd{K: "dcall", CS: &CallSite{Task: t, V: v}} }
	add(mk("limit1-defer-call", 1, []string{"a", "b"}, map[string]*Task{
		"a": {Cmds: []Cmd{dc("b", ""), sh(0)}},
		"b": {Cmds: []Cmd{sh(0)}},
	}))
	add(mk("limit1-defer-call-fail", 1, []string{"a", "b", "c"}, map[string]*Task{
		"a": {Cmds: []Cmd{dc("b", ""), {K: "dsh"}, sh(3)}},
		"b": {Cmds: []Cmd{dc("c", ""), sh(0)}},
		"c": {Cmds: []Cmd{sh(0)}},
	}))
	add(mk("limit2-two-defer-calls", 2, []string{"a", "b", "c", "d"}, map[string]*Task{
		"a": {Deps: []CallSite{dep("b"), dep("c")}, Cmds: []Cmd{sh(0)}},
		"b": {Cmds: []Cmd{dc("d", "one"), sh(0)}},
		"c": {Cmds: []Cmd{dc("d", "two"), sh(0)}},
		"d": {Cmds: []Cmd{sh(0)}},
	}))
	add(mk("limit2-defer-call-once", 2, []string{"a", "b", "c", "d"}, map[string]*Task{
		"a": {Deps: []CallSite{dep("b"), dep("c")}, Cmds: []Cmd{sh(0)}},
		"b": {Cmds: []Cmd{dc("d", ""), sh(0)}},
		"c": {Cmds: []Cmd{dc("d", ""), sh(0)}},
		"d": {Run: "once", Cmds: []Cmd{sh(0)}},
	}))
	add(mk("limit1-skipped-tasks", 1, []string{"a", "b", "c", "d"}, map[string]*Task{
		"a": {Deps: []CallSite{dep("b")}, Cmds: []Cmd{call("c", ""), call("b", ""), dc("c", ""), sh(0)}},
		"b": {Guard: "uptodate", Cmds: []Cmd{sh(0)}},
		"c": {Guard: "platform", Cmds: []Cmd{sh(0)}},
		"d": {Cmds: []Cmd{sh(0)}},
	}))
	add(mk("limit1-precond-in-call", 1, []string{"a", "b", "c"}, map[string]*Task{
		"a": {Ign: true, Cmds: []Cmd{call("b", ""), call("c", ""), sh(0)}},
		"b": {Guard: "precond", Cmds: []Cmd{sh(0)}},
		"c": {Cmds: []Cmd{sh(0)}},
	}))
	add(mk("limit1-for-calls", 1, []string{"a", "b", "c"}, map[string]*Task{
		"a": {Cmds: []Cmd{{K: "call", CS: &CallSite{Task: "b", For: []string{"one", "two", "x"}}}, sh(0)}},
		"b": {Cmds: []Cmd{call("c", "$"), sh(0)}},
		"c": {Cmds: []Cmd{sh(0)}},
	}))
	add(mk("limit2-fail-in-call", 2, []string{"a", "b", "c", "d"}, map[string]*Task{
		"a": {Deps: []CallSite{dep("b"), dep("c")}, Cmds: []Cmd{sh(0)}},
		"b": {Ign: true, Cmds: []Cmd{call("d", "one"), call("d", "two"), sh(0)}},
		"c": {Cmds: []Cmd{call("d", "x"), sh(0)}},
		"d": {Cmds: []Cmd{{K: "dsh"}, sh(3)}},
	}))
	// three loops in one task (the three spellings of a list), each followed by an ordinary command; a called task
	// with its own deferred command and dependency inside a loop: the next iteration waits for all of it
	add(mk("for-three-styles", 0, []string{"a", "b", "c"}, map[string]*Task{
		"a": {Cmds: []Cmd{{K: "sh", For: []string{"x", "y", "one"}}, sh(0), {K: "call", CS: &CallSite{Task: "b", For: []string{"one", "two"}}}, sh(0),
			{K: "sh", For: []string{"two", "one", "x", "y"}}, {K: "call", CS: &CallSite{Task: "b", For: []string{"x", "y", "two"}}}, sh(0)}},
		"b": {Deps: []CallSite{depv("c", "$")}, Cmds: []Cmd{{K: "dsh"}, sh(0)}},
		"c": {Cmds: []Cmd{sh(0)}},
	}))
	// several deferred entries of both kinds around a failing command: reverse order, exactly once, exit code
	add(mk("defer-three-mixed", 0, []string{"a", "b"}, map[string]*Task{
		"a": {Cmds: []Cmd{{K: "dsh"}, {K: "dcall", CS: &CallSite{Task: "b", V: "one"}}, {K: "dsh"}, sh(0), {K: "dsh"}, {K: "dcall", CS: &CallSite{Task: "b", V: "two"}}, sh(7), {K: "dsh"}, sh(0)}},
		"b": {Cmds: []Cmd{{K: "dsh"}, {K: "dsh"}, sh(0)}},
	}))
	add(mk("defer-in-called-twice", 0, []string{"a", "b"}, map[string]*Task{
		"a": {Cmds: []Cmd{call("b", "one"), call("b", "two"), {K: "dsh"}, sh(0)}},
		"b": {Cmds: []Cmd{{K: "dsh"}, sh(0), {K: "dsh"}, sh(0)}},
	}))
	// a deduplicated task with a deferred command, awaited by two concurrent callers: both wait for ALL of it
	add(mk("once-defer-two-callers", 0, []string{"a", "b", "c", "d"}, map[string]*Task{
		"a": {Deps: []CallSite{dep("b"), dep("c")}, Cmds: []Cmd{sh(0)}},
		"b": {Cmds: []Cmd{call("d", ""), sh(0)}},
		"c": {Cmds: []Cmd{call("d", ""), sh(0)}},
		"d": {Run: "once", Cmds: []Cmd{{K: "dsh"}, sh(0), {K: "dsh"}}},
	}))
	add(mk("when-changed-defer-two-deps", 0, []string{"a", "b", "c", "d"}, map[string]*Task{
		"a": {Deps: []CallSite{dep("b"), dep("c")}, Cmds: []Cmd{sh(0)}},
		"b": {Deps: []CallSite{depv("d", "one")}, Cmds: []Cmd{sh(0)}},
		"c": {Deps: []CallSite{depv("d", "one")}, Cmds: []Cmd{sh(0)}},
		"d": {Run: "when_changed", Cmds: []Cmd{{K: "dsh"}, sh(0)}},
	}))
	// values that differ only in their type (the integer 1, the string "1") are different sets of variable values;
	// the callee's only entry is deferred, so that the value reaches no command text before the task runs
	add(mk("when-changed-typed", 0, []string{"a", "w"}, map[string]*Task{
		"a": {Cmds: []Cmd{call("w", "#1"), call("w", "1"), call("w", "#1"), call("w", "1"), sh(0)}},
		"w": {Run: "when_changed", Cmds: []Cmd{{K: "dsh"}}},
	}))
	// every way out of a task gives its slot back: a guarded task next to a sibling that needs the only slot; the
	// harness decides who takes the slot first
	for _, g := range []string{"precond", "prompt", "requires", "enum", "uptodate", "platform"} {
		pr := mk("limit1-dep-guard-"+g, 1, []string{"a", "b", "c"}, map[string]*Task{
			"a": {Deps: []CallSite{depv("b", "two"), dep("c")}, Cmds: []Cmd{sh(0)}},
			"b": {Guard: g, Cmds: []Cmd{sh(0)}},
			"c": {Cmds: []Cmd{sh(0), sh(0)}},
		})
		pr.AcqGate = true
		add(pr)
	}
	// a deferred task call written in an included Taskfile refers to a task of that file
	add(inc(mk("inc-defer-call", 0, []string{"a", "n:x", "n:y"}, map[string]*Task{
		"a":   {Cmds: []Cmd{call("n:x", "one"), sh(0)}},
		"n:x": {Cmds: []Cmd{{K: "dcall", CS: &CallSite{Task: "n:y", V: "$"}}, {K: "dsh"}, sh(0)}},
		"n:y": {Cmds: []Cmd{sh(0)}},
	}), "n"))
	// a fingerprinted task that ignores its own failures: every failure is ignored, not just the first
	add(mk("ign-two-failures-sources", 0, []string{"a", "b"}, map[string]*Task{
		"a": {Cmds: []Cmd{call("b", ""), sh(0)}},
		"b": {Ign: true, Src: true, Cmds: []Cmd{sh(3), sh(5), sh(0), sh(7), sh(0)}},
	}))
	// loops over lists with an empty item and with items that contain the characters of the separator
	add(mk("for-empty-and-separator-items", 0, []string{"a", "b"}, map[string]*Task{
		"a": {Cmds: []Cmd{{K: "sh", For: []string{"x", "", "y"}}, {K: "call", CS: &CallSite{Task: "b", For: []string{"p-q", "r>s", "one"}}},
			{K: "sh", For: []string{"p-q", "r>s", "one"}}, {K: "call", CS: &CallSite{Task: "b", For: []string{"x", "", "y"}}}, sh(0),
			{K: "sh", For: []string{"one", ""}}, {K: "call", CS: &CallSite{Task: "b", For: []string{"one", ""}}}, {K: "sh", For: []string{"", "x"}}}},
		"b": {Cmds: []Cmd{sh(0)}},
	}))
	// a deferred task call whose variables mention EXIT_CODE: the called task receives the code of the failing command
	add(mk("defer-call-exit-code-var", 0, []string{"a", "b"}, map[string]*Task{
		"a": {Cmds: []Cmd{{K: "dcall", CS: &CallSite{Task: "b", V: "x7", VT: "x{{.EXIT_CODE}}"}}, {K: "dsh"}, sh(0), sh(7), sh(0)}},
		"b": {Cmds: []Cmd{sh(0)}},
	}))
	add(mk("defer-call-exit-code-var-ok", 0, []string{"a", "b"}, map[string]*Task{
		"a": {Cmds: []Cmd{{K: "dcall", CS: &CallSite{Task: "b", V: "x", VT: "x{{.EXIT_CODE}}"}}, sh(0)}},
		"b": {Cmds: []Cmd{sh(0)}},
	}))
	// a caller that ignores errors does not ignore the guard of a task it calls
	for _, g := range []string{"requires", "enum", "precond", "prompt"} {
		add(mk("ign-caller-guard-"+g, 0, []string{"a", "b", "c"}, map[string]*Task{
			"a": {Cmds: []Cmd{call("b", ""), sh(0)}},
			"b": {Ign: true, Cmds: []Cmd{sh(3), call("c", "two"), sh(0)}},
			"c": {Guard: g, Cmds: []Cmd{sh(0)}},
		}))
	}
	// two roots, sequential and parallel
	for _, par := range []bool{false, true} {
		p := mk(fmt.Sprintf("two-roots-par%v", par), 2, []string{"a", "b", "c"}, map[string]*Task{
			"a": {Deps: []CallSite{dep("c")}, Cmds: []Cmd{sh(0), sh(2)}},
			"b": {Deps: []CallSite{dep("c")}, Cmds: []Cmd{sh(0), sh(0)}},
			"c": {Run: "once", Cmds: []Cmd{sh(0)}},
		}, Root{Task: "a"}, Root{Task: "b"})
		p.Parallel = par
		add(p)
	}
	// ignore_error placements
	add(mk("ignore", 0, []string{"a", "b", "c"}, map[string]*Task{
		"a": {Cmds: []Cmd{{K: "sh", X: 2, Ign: true}, call("b", ""), sh(0), call("c", ""), sh(0)}},
		"b": {Ign: true, Cmds: []Cmd{sh(9), sh(0)}},
		"c": {Cmds: []Cmd{sh(0), sh(255)}},
	}))
	return ps
}
