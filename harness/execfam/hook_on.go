//go:build verif

package execfam

import (
	"github.com/go-task/task/v3"
	"github.com/go-task/task/v3/taskfile/ast"
)

// HooksAvailable: the harness was built with the verif tag, the executor has gate points.
const HooksAvailable = true

func setHook(f func(point string, t *ast.Task)) { task.VerifHook = f }
