// Package execfam: abstract executor programs, their rendering as Taskfiles and as TLA+
// constants, and the in-process runner that records probe traces.
package execfam

import (
	"fmt"
	"runtime"
	"sort"
	"strings"
)

// CallSite is a reference to another task from deps: or from a task: command.
type CallSite struct {
	Task string   `json:"t"`
	V    string   `json:"v"`             // "" = V not passed, "$" = pass the caller's V through, else literal
	For  []string `json:"for,omitempty"` // for: [..] list; the item is passed as V
	Mat  [][]string `json:"mat,omitempty"` // for: {matrix: {A: [..], B: [..]}}; the item is the concatenation of the row values
	VT   string     `json:"vt,omitempty"`  // how V is written in the Taskfile when it is a template whose value (V) the program fixes
}

// Cmd kinds: sh, call, dsh (defer shell), dcall (defer task call)
type Cmd struct {
	K   string    `json:"k"`
	X   int       `json:"x"`             // planned exit code of a shell command
	Ign bool      `json:"ign,omitempty"` // ignore_error on the command
	CS  *CallSite `json:"cs,omitempty"`
	For []string  `json:"for,omitempty"` // for list on a shell command (item printed)
	Mat [][]string `json:"mat,omitempty"` // matrix on a shell command
}

type Task struct {
	Deps  []CallSite `json:"deps"`
	Cmds  []Cmd      `json:"cmds"`
	Run   string     `json:"run"`             // always | once | when_changed
	Ign   bool       `json:"ign,omitempty"`   // task-level ignore_error
	Guard string     `json:"guard,omitempty"` // none platform requires enum precond prompt internal uptodate
	VUse  string     `json:"vuse,omitempty"`  // where V reaches in a when_changed task: cmd (default) | env | sub
	Label bool       `json:"label,omitempty"` // the task carries a label templated with the call variables (no effect on semantics)
	Src   bool       `json:"src,omitempty"`   // the task has sources (fingerprinted); only for tasks that run once per invocation
}

type Root struct {
	Task string `json:"t"`
	V    string `json:"v"`
}

type Program struct {
	ID       string           `json:"id"`
	Order    []string         `json:"order"`
	Tasks    map[string]*Task `json:"tasks"`
	Roots    []Root           `json:"roots"`
	N        int              `json:"n"`
	Parallel bool             `json:"par,omitempty"`
	Force    bool             `json:"force,omitempty"`
	ForceAll bool             `json:"forceall,omitempty"`
	Yes      bool             `json:"yes,omitempty"`
	AcqGate  bool             `json:"acq,omitempty"` // the harness also decides the order in which tasks take their slot
	NS       []string         `json:"ns,omitempty"` // namespaces under which inc.yml is included; tasks named "<ns>:x" live there
	Feat     []string         `json:"feat,omitempty"`
}

func (t *Task) guard() string {
	if t.Guard == "" {
		return "none"
	}
	return t.Guard
}
func (t *Task) run() string {
	if t.Run == "" {
		return "always"
	}
	return t.Run
}

// ---------- Taskfile rendering ----------

// vExpr renders the value of the call variable(s): V, or V+W when W is passed too.
// A value written "#n" in a program is the INTEGER n (V: 1), to be told from the string "n" (V: '1'): the probes
// print the marker themselves.
const vExpr = "{{if kindIs \"int\" .V}}#{{end}}{{.V}}{{if .W}}+{{.W}}{{end}}"

// pexpr is the template expression a task uses for its own printed path.
func pexpr(name string, t *Task) string {
	if t.run() == "when_changed" {
		return name + "[" + vExpr + "]"
	}
	return "{{.P}}"
}

func yq(s string) string { return "'" + strings.ReplaceAll(s, "'", "''") + "'" }

var matKeys = []string{"A", "B", "C", "D", "E"}

// matYAML renders for: {matrix: ...}; itemExpr is the template giving the concatenated item.
func matYAML(rows [][]string) string {
	var parts []string
	for i, r := range rows {
		parts = append(parts, matKeys[i]+": "+forYAML(r))
	}
	return "{matrix: {" + strings.Join(parts, ", ") + "}}"
}

func itemExpr(mat [][]string) string {
	if len(mat) == 0 {
		return "{{.ITEM}}"
	}
	e := ""
	for i := range mat {
		e += "{{.ITEM." + matKeys[i] + "}}"
	}
	return e
}

func forOf(list []string, mat [][]string) string {
	if len(mat) > 0 {
		return matYAML(mat)
	}
	return forYAML(list)
}

func forYAML(items []string) string {
	q := make([]string, len(items))
	for i, it := range items {
		q[i] = yq(it)
	}
	return "[" + strings.Join(q, ", ") + "]"
}

// otherPlatforms is a platforms: list that excludes the current platform although one entry has its OS and
// another one its architecture.
func otherPlatforms() string {
	os2, arch2 := "windows", "arm"
	if runtime.GOOS == "windows" {
		os2 = "linux"
	}
	if runtime.GOARCH == "arm" {
		arch2 = "amd64"
	}
	return fmt.Sprintf("[%s/%s, %s/%s, %s/%s, %s]", runtime.GOOS, arch2, os2, runtime.GOARCH, os2, arch2, os2)
}

// callVars renders the vars: mapping of a call site. kind is "d" or "c", idx the declared index (1-based).
func callVars(p *Program, self string, st *Task, cs *CallSite, kind string, idx int, itemVar string) string {
	item := func(mat [][]string) string {
		if len(mat) == 0 && itemVar != "" {
			return "{{." + itemVar + "}}"
		}
		return itemExpr(mat)
	}
	var parts []string
	callee := p.Tasks[cs.Task]
	suffix := fmt.Sprintf(".%s%d", kind, idx)
	if len(cs.For) > 0 || len(cs.Mat) > 0 {
		suffix += "_" + item(cs.Mat)
	}
	if callee != nil && callee.run() != "when_changed" {
		parts = append(parts, "P: "+yq(pexpr(self, st)+suffix))
	}
	// every call passes V and W explicitly ("" = nothing): an unset variable and an empty one
	// would otherwise be different "sets of variable values" for run: when_changed
	switch {
	case len(cs.For) > 0 || len(cs.Mat) > 0:
		parts = append(parts, "V: '"+item(cs.Mat)+"'", "W: ''")
	case cs.V == "$":
		parts = append(parts, "V: '{{.V}}'", "W: '{{.W}}'")
	case strings.Contains(cs.V, "+"):
		// a pair value "x+y" stands for two variables V=x, W=y
		f := strings.SplitN(cs.V, "+", 2)
		parts = append(parts, "V: "+yq(f[0]), "W: "+yq(f[1]))
	case cs.VT != "":
		parts = append(parts, "V: "+yq(cs.VT), "W: ''")
	case strings.HasPrefix(cs.V, "#"):
		parts = append(parts, "V: "+cs.V[1:], "W: ''") // an integer
	default:
		parts = append(parts, "V: "+yq(cs.V), "W: ''")
	}
	if len(parts) == 0 {
		return ""
	}
	return "vars: {" + strings.Join(parts, ", ") + "}"
}

// nsOf returns the namespace a task lives in ("" = the root Taskfile) and its local name.
func (p *Program) nsOf(name string) (string, string) {
	for _, ns := range p.NS {
		if strings.HasPrefix(name, ns+":") {
			return ns, name[len(ns)+1:]
		}
	}
	return "", name
}

// Canon maps a task name to the name of its definition as far as deduplication is concerned: a run: once task
// of a file included under several namespaces is ONE task (the key is the file and the local name), so its copies
// are projected on the copy of the first namespace. Only leaf once tasks are mirrored (see Includize).
func (p *Program) Canon(name string) string {
	if len(p.NS) < 2 {
		return name
	}
	ns, local := p.nsOf(name)
	if ns == "" || ns == p.NS[0] {
		return name
	}
	if t := p.Tasks[name]; t != nil && t.run() == "once" {
		return p.NS[0] + ":" + local
	}
	return name
}

// refIn renders a reference to task `to` as written in the file of namespace `from`.
func (p *Program) refIn(from, to string) string {
	ns, local := p.nsOf(to)
	switch {
	case from == "":
		return to
	case ns == from:
		return local
	case ns == "":
		return ":" + to // a root task, from an included file
	default:
		return ":" + to
	}
}

// Taskfile renders the root Taskfile (version 3); Files gives every file of the program.
func (p *Program) Taskfile() string { return p.render("") }

func (p *Program) Files() map[string]string {
	m := map[string]string{"Taskfile.yml": p.render("")}
	if len(p.NS) > 0 {
		m["inc.yml"] = p.render(p.NS[0])
		for _, ns := range p.NS[1:] {
			if p.render(ns) != m["inc.yml"] {
				panic("program " + p.ID + ": the tasks of namespace " + ns + " are not a copy of those of " + p.NS[0])
			}
		}
	}
	return m
}

// AllFiles is the text of every file, for replays.
func (p *Program) AllFiles() string {
	s := p.render("")
	if len(p.NS) > 0 {
		s += "\n# ---- inc.yml ----\n" + p.render(p.NS[0])
	}
	return s
}

func (p *Program) render(file string) string {
	var b strings.Builder
	b.WriteString("version: '3'\nsilent: true\n")
	if file == "" && len(p.NS) > 0 {
		b.WriteString("includes:\n")
		for _, ns := range p.NS {
			fmt.Fprintf(&b, "  %s: ./inc.yml\n", ns)
		}
	}
	b.WriteString("tasks:\n")
	for _, full := range p.Order {
		t := p.Tasks[full]
		ns, local := p.nsOf(full)
		if ns != file {
			continue
		}
		name := full
		if file != "" {
			name = "{{.TASK}}" // the file is included under several namespaces: the task prints the name it was given
		}
		fmt.Fprintf(&b, "  %s:\n", local)
		if t.Run != "" {
			fmt.Fprintf(&b, "    run: %s\n", t.Run)
		}
		if t.Ign {
			b.WriteString("    ignore_error: true\n")
		}
		if t.Label {
			b.WriteString("    label: 'label {{.V}}-{{.W}}'\n")
		}
		if t.Src {
			b.WriteString("    method: checksum\n    sources: ['Taskfile.yml']\n")
		}
		switch t.guard() {
		case "platform":
			b.WriteString("    platforms: " + otherPlatforms() + "\n")
		case "platreq":
			b.WriteString("    platforms: " + otherPlatforms() + "\n    requires: {vars: [REQ]}\n")
		case "requires":
			b.WriteString("    requires: {vars: [REQ]}\n")
		case "requires2": // the first required variable is set, the second is missing
			b.WriteString("    requires: {vars: [V, REQ]}\n")
		case "enum":
			b.WriteString("    requires: {vars: [{name: V, enum: [one]}]}\n")
		case "precond":
			b.WriteString("    preconditions: [{sh: 'false', msg: nope}]\n")
		case "prompt":
			b.WriteString("    prompt: 'go?'\n")
		case "internal":
			b.WriteString("    internal: true\n")
		case "uptodate":
			b.WriteString("    status: ['true']\n")
		}
		if t.run() == "when_changed" && t.VUse == "env" {
			b.WriteString("    env: {VV: '{{.V}}', WW: '{{.W}}'}\n")
		}
		// the loops of this task: the same list is written literally, as a variable of words, or as a variable
		// split at commas (rendering variants chosen by position; the specification speaks of the list of items)
		outer := &b
		var loopVars []string
		asV := false    // set by the caller of forOf for loops over task calls: the iterator may be named like the variable V
		itemVar := ""   // set by forOf: the name of the iterator of the loop just rendered ("" = ITEM)
		forOf := func(list []string, mat [][]string) string {
			itemVar = ""
			if len(mat) > 0 {
				return matYAML(mat)
			}
			hasEmpty, special := false, len(list) == 0
			for _, it := range list {
				if it == "" {
					hasEmpty = true
				}
				if strings.ContainsAny(it, " ,'\t") || strings.Contains(it, "->") {
					special = true
				}
			}
			k := len(loopVars) + 1
			as := ""
			if asV {
				as = ", as: V"
			}
			switch style := (len(full) + k) % 4; {
			case !special && !hasEmpty && style == 1: // a variable of words
				loopVars = append(loopVars, fmt.Sprintf("FL%d: %s", k, yq(strings.Join(list, " "))))
				if asV {
					itemVar = "V"
				}
				return fmt.Sprintf("{var: FL%d%s}", k, as)
			case !special && style == 2: // split at commas (an empty item stays an item)
				loopVars = append(loopVars, fmt.Sprintf("FL%d: %s", k, yq(strings.Join(list, ","))))
				if asV {
					itemVar = "V"
				}
				return fmt.Sprintf("{var: FL%d, split: ','%s}", k, as)
			case !special && style == 3: // split at a two-character separator whose characters may occur in items
				loopVars = append(loopVars, fmt.Sprintf("FL%d: %s", k, yq(strings.Join(list, "->"))))
				if asV {
					itemVar = "V"
				}
				return fmt.Sprintf("{var: FL%d, split: '->'%s}", k, as)
			}
			loopVars = append(loopVars, "")
			return forYAML(list)
		}
		var b strings.Builder
		if len(t.Deps) > 0 {
			b.WriteString("    deps:\n")
			for j, d := range t.Deps {
				d := d
				if len(d.For) > 0 || len(d.Mat) > 0 {
					asV = t.run() != "when_changed"
					fmt.Fprintf(&b, "      - for: %s\n        task: %s\n", forOf(d.For, d.Mat), yq(p.refIn(file, d.Task)))
					asV = false
					if v := callVars(p, name, t, &d, "d", j+1, itemVar); v != "" {
						fmt.Fprintf(&b, "        %s\n", v)
					}
					continue
				}
				fmt.Fprintf(&b, "      - task: %s\n", yq(p.refIn(file, d.Task)))
				if v := callVars(p, name, t, &d, "d", j+1, ""); v != "" {
					fmt.Fprintf(&b, "        %s\n", v)
				}
			}
		}
		if len(t.Cmds) > 0 {
			b.WriteString("    cmds:\n")
			for i, c := range t.Cmds {
				idx := i + 1
				vtxt := vExpr
				if t.run() == "when_changed" && (t.VUse == "env" || t.VUse == "sub") {
					vtxt = "-" // V deliberately does not reach the command text
				}
				switch c.K {
				case "sh", "dsh":
					item := ""
					if len(c.For) > 0 || len(c.Mat) > 0 {
						item = itemExpr(c.Mat)
					}
					xc := ""
					if c.K == "dsh" {
						xc = "{{.EXIT_CODE}}"
					}
					line := fmt.Sprintf("echo 'B|%s|%s|%d|%s|%s|%s'", pexpr(name, t), name, idx, item, vtxt, xc)
					if t.run() == "when_changed" && t.VUse == "env" {
						line = fmt.Sprintf("echo \"B|%s|%s|%d|%s|$VV${WW:++$WW}|%s\"", name+"[$VV${WW:++$WW}]", name, idx, item, xc)
					}
					if c.X != 0 {
						line += fmt.Sprintf("; exit %d", c.X)
					}
					key := "cmd"
					if c.K == "dsh" {
						key = "defer"
					}
					if len(c.For) > 0 || len(c.Mat) > 0 {
						fmt.Fprintf(&b, "      - for: %s\n        cmd: %s\n", forOf(c.For, c.Mat), yq(line))
						if c.Ign {
							b.WriteString("        ignore_error: true\n")
						}
					} else {
						fmt.Fprintf(&b, "      - %s: %s\n", key, yq(line))
						if c.Ign {
							b.WriteString("        ignore_error: true\n")
						}
					}
				case "call":
					if len(c.CS.For) > 0 || len(c.CS.Mat) > 0 {
						asV = t.run() != "when_changed"
						fmt.Fprintf(&b, "      - for: %s\n        task: %s\n", forOf(c.CS.For, c.CS.Mat), yq(p.refIn(file, c.CS.Task)))
						asV = false
					} else {
						itemVar = ""
						fmt.Fprintf(&b, "      - task: %s\n", yq(p.refIn(file, c.CS.Task)))
					}
					if v := callVars(p, name, t, c.CS, "c", idx, itemVar); v != "" {
						fmt.Fprintf(&b, "        %s\n", v)
					}
				case "dcall":
					fmt.Fprintf(&b, "      - defer: {task: %s", yq(p.refIn(file, c.CS.Task)))
					if v := callVars(p, name, t, c.CS, "c", idx, ""); v != "" {
						fmt.Fprintf(&b, ", %s", v)
					}
					b.WriteString("}\n")
				}
			}
		}
		var lv []string
		for _, v := range loopVars {
			if v != "" {
				lv = append(lv, v)
			}
		}
		if len(lv) > 0 {
			fmt.Fprintf(outer, "    vars: {%s}\n", strings.Join(lv, ", "))
		}
		outer.WriteString(b.String())
	}
	return b.String()
}

// ---------- TLA+ rendering ----------

func tlaStr(s string) string { return `"` + strings.ReplaceAll(s, `"`, `\"`) + `"` }

func tlaSeqStr(xs []string) string {
	q := make([]string, len(xs))
	for i, x := range xs {
		q[i] = tlaStr(x)
	}
	return "<<" + strings.Join(q, ", ") + ">>"
}

func tlaBool(b bool) string {
	if b {
		return "TRUE"
	}
	return "FALSE"
}

func tlaMat(m [][]string) string {
	rows := make([]string, len(m))
	for i, r := range m {
		rows[i] = tlaSeqStr(r)
	}
	return "<<" + strings.Join(rows, ", ") + ">>"
}

func (cs *CallSite) tla(p *Program) string {
	if cs == nil {
		return `[t |-> "", v |-> "", for |-> <<>>, mat |-> <<>>]`
	}
	return fmt.Sprintf(`[t |-> %s, v |-> %s, for |-> %s, mat |-> %s]`, tlaStr(p.Canon(cs.Task)), tlaStr(cs.V), tlaSeqStr(cs.For), tlaMat(cs.Mat))
}

func (c *Cmd) tla(p *Program) string {
	return fmt.Sprintf(`[k |-> %s, x |-> %d, ign |-> %s, cs |-> %s, for |-> %s, mat |-> %s]`,
		tlaStr(c.K), c.X, tlaBool(c.Ign), c.CS.tla(p), tlaSeqStr(c.For), tlaMat(c.Mat))
}

func (t *Task) tlaIn(p *Program) string {
	ds := make([]string, len(t.Deps))
	for i := range t.Deps {
		ds[i] = t.Deps[i].tla(p)
	}
	cs := make([]string, len(t.Cmds))
	for i := range t.Cmds {
		cs[i] = t.Cmds[i].tla(p)
	}
	vuse := t.VUse
	if vuse == "" {
		vuse = "cmd"
	}
	return fmt.Sprintf(`[deps |-> <<%s>>, cmds |-> <<%s>>, run |-> %s, ign |-> %s, guard |-> %s, vuse |-> %s]`,
		strings.Join(ds, ", "), strings.Join(cs, ", "), tlaStr(t.run()), tlaBool(t.Ign), tlaStr(t.guard()), tlaStr(vuse))
}

// TLA renders the program as a TLA+ record.
func (p *Program) TLA() string {
	names := append([]string(nil), p.Order...)
	sort.Strings(names)
	var ts []string
	for _, n := range names {
		if p.Canon(n) != n {
			continue // a copy of a shared run: once definition
		}
		ts = append(ts, fmt.Sprintf("(%s :> %s)", tlaStr(n), p.Tasks[n].tlaIn(p)))
	}
	var rs []string
	for _, r := range p.Roots {
		rs = append(rs, fmt.Sprintf(`[t |-> %s, v |-> %s]`, tlaStr(r.Task), tlaStr(r.V)))
	}
	return fmt.Sprintf("[id |-> %s, tasks |-> (%s), roots |-> <<%s>>, n |-> %d, par |-> %s, force |-> %s, forceall |-> %s, yes |-> %s]",
		tlaStr(p.ID), strings.Join(ts, " @@ "), strings.Join(rs, ", "), p.N, tlaBool(p.Parallel), tlaBool(p.Force), tlaBool(p.ForceAll), tlaBool(p.Yes))
}
