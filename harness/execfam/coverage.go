package execfam

import (
	"fmt"
	"os"
	"regexp"
	"runtime"
	"sort"
	"strconv"
	"strings"
	"time"

	"verifharness/rep"
	"verifharness/tlc"
)

var actRe = regexp.MustCompile(`(?m)^<(\w+) line \d+, col \d+ to line \d+, col \d+ of module (\w+)>: (\d+):(\d+)`)

// ActionCoverage extracts "action: distinct:generated" from a TLC run with -coverage 1 (the last report wins).
func ActionCoverage(out string) map[string][2]int64 {
	m := map[string][2]int64{}
	for _, x := range actRe.FindAllStringSubmatch(out, -1) {
		d, _ := strconv.ParseInt(x[3], 10, 64)
		g, _ := strconv.ParseInt(x[4], 10, 64)
		m[x[2]+"!"+x[1]] = [2]int64{d, g}
	}
	return m
}

// Coverage model-checks the design model over the core programs with -coverage 1 and lists the actions of Exec
// with their counts: an action that is never taken means that the bounded batches never exercise it (vacuity).
func Coverage() int {
	var progs []*Program
	for _, p := range Core() {
		if Size(p) <= 7 && !IsCyclic(p) {
			progs = append(progs, p)
		}
	}
	t0 := time.Now()
	r := tlc.Run(tlc.Opts{SpecDir: SpecDir, Extra: map[string]string{"ExecData.tla": DataModule(progs, nil)},
		Module: "ExecCov", Config: "ExecCov.cfg", Workers: runtime.NumCPU(), Timeout: 20 * time.Minute, Coverage: true})
	if !r.OK {
		if i := strings.Index(r.Out, "Error:"); i >= 0 {
			fmt.Println(r.Out[i:min(i+3000, len(r.Out))])
		}
		fmt.Println("ERROR: TLC did not complete:", tailStr(r.Out, 300))
		return 2
	}
	os.WriteFile(rep.Root+"/.work/coverage-exec.out", []byte(r.Out), 0o644)
	cov := ActionCoverage(r.Out)
	var names []string
	for n := range cov {
		names = append(names, n)
	}
	sort.Strings(names)
	zero := 0
	for _, n := range names {
		if !strings.HasPrefix(n, "ExecCov!c") {
			continue
		}
		if strings.HasPrefix(n, "ExecCov!cKF_") {
			continue // deviation switches are off in the design model
		}
		c := cov[n]
		mark := ""
		if c[1] == 0 {
			mark = "   <-- never taken"
			zero++
		}
		fmt.Printf("coverage exec  %-34s distinct %8d  generated %9d%s\n", n, c[0], c[1], mark)
	}
	fmt.Printf("coverage exec: %d core programs, %d distinct states, %d actions, %d never taken, %.1fs\n", len(progs), r.Distinct, len(names), zero, time.Since(t0).Seconds())
	if zero > 0 {
		return 1
	}
	return 0
}
