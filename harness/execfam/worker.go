package execfam

import (
	"bufio"
	"encoding/json"
	"fmt"
	"io"
	"os"
	"os/exec"
	"sync"
	"syscall"
	"time"

	"verifharness/probe"
)

// WorkItem: one program explored with one policy.
type WorkItem struct {
	Idx     int      `json:"idx"` // program index in the batch (0-based)
	Prog    *Program `json:"prog"`
	DFS     int      `json:"dfs,omitempty"`   // explore up to DFS release orders depth-first
	Seeds   []uint64 `json:"seeds,omitempty"` // plus one run per seed
	Scripts [][]string `json:"scripts,omitempty"`
	Procs   []int    `json:"procs,omitempty"` // GOMAXPROCS values to rotate through
	Snapshot bool    `json:"snapshot,omitempty"`
	Gates    []string `json:"gates,omitempty"`
}

type WorkResult struct {
	Idx       int      `json:"idx"`
	Runs      []Result `json:"runs"`
	Exhausted bool     `json:"exhausted"` // DFS enumerated every release order
	Crash     string   `json:"crash,omitempty"`
}

// Explore runs one work item in this process.
func Explore(w WorkItem, scratch string) WorkResult {
	out := WorkResult{Idx: w.Idx}
	procs := func(k int) int {
		if len(w.Procs) == 0 {
			return 0
		}
		return w.Procs[k%len(w.Procs)]
	}
	k := 0
	if w.DFS > 0 {
		var prefix []int
		for n := 0; n < w.DFS; n++ {
			r := Run(Job{Prog: w.Prog, Prefix: prefix, Procs: procs(k), Snapshot: w.Snapshot, Gates: w.Gates}, scratch)
			k++
			r.Job.Prog = nil
			out.Runs = append(out.Runs, r)
			if r.SetupErr != "" || r.Timeout {
				break
			}
			prefix = probe.NextPrefix(r.Taken, r.Alts)
			if prefix == nil {
				out.Exhausted = true
				break
			}
		}
	}
	for _, s := range w.Seeds {
		r := Run(Job{Prog: w.Prog, Seed: s, Procs: procs(k), Snapshot: w.Snapshot, Gates: w.Gates}, scratch)
		k++
		r.Job.Prog = nil
		out.Runs = append(out.Runs, r)
	}
	for _, sc := range w.Scripts {
		r := Run(Job{Prog: w.Prog, Script: sc, Procs: procs(k), Snapshot: w.Snapshot, Gates: w.Gates}, scratch)
		k++
		r.Job.Prog = nil
		out.Runs = append(out.Runs, r)
	}
	return out
}

// WorkerMain: read work items (JSON lines) from stdin, write results (JSON lines) to stdout.
func WorkerMain() {
	scratch := os.Getenv("VERIF_SCRATCH")
	if scratch == "" {
		scratch = "/dev/shm"
	}
	in := bufio.NewReaderSize(os.Stdin, 1<<20)
	out := bufio.NewWriter(os.Stdout)
	dec := json.NewDecoder(in)
	for {
		var w WorkItem
		if err := dec.Decode(&w); err != nil {
			break
		}
		fmt.Fprintf(out, "START %d\n", w.Idx)
		out.Flush()
		r := Explore(w, scratch)
		b, _ := json.Marshal(r)
		out.WriteString("RESULT ")
		out.Write(b)
		out.WriteString("\n")
		out.Flush()
	}
}

// RunPool distributes work items over nworkers child processes (re-executing this binary with
// the argument "worker-exec"). A child that dies (panic in the code under test, OOM) is
// reported as a crash of the item it was working on; the rest of its queue is re-dispatched.
func RunPool(items []WorkItem, nworkers int, perItem time.Duration) []WorkResult {
	results := make([]WorkResult, len(items))
	done := make([]bool, len(items))
	var mu sync.Mutex
	queue := make(chan int, len(items))
	for i := range items {
		queue <- i
	}
	close(queue)
	self, _ := os.Executable()
	var wg sync.WaitGroup
	for w := 0; w < nworkers; w++ {
		wg.Add(1)
		go func() {
			defer wg.Done()
			for {
				// start a child and feed it items one at a time
				first, ok := <-queue
				if !ok {
					return
				}
				cmd := exec.Command(self, "worker-exec")
				cmd.Env = append(os.Environ(), "GOTRACEBACK=all")
				stdin, _ := cmd.StdinPipe()
				stdout, _ := cmd.StdoutPipe()
				var stderrBuf limitedBuf
				cmd.Stderr = &stderrBuf
				cmd.SysProcAttr = &syscall.SysProcAttr{Setpgid: true, Pdeathsig: syscall.SIGKILL}
				if err := cmd.Start(); err != nil {
					mu.Lock()
					results[first] = WorkResult{Idx: first, Crash: "start: " + err.Error()}
					done[first] = true
					mu.Unlock()
					continue
				}
				rd := bufio.NewReaderSize(stdout, 1<<20)
				cur := first
				alive := true
				for alive {
					b, _ := json.Marshal(items[cur])
					stdin.Write(append(b, '\n'))
					resCh := make(chan *WorkResult, 1)
					go func() {
						for {
							line, err := rd.ReadString('\n')
							if err != nil {
								resCh <- nil
								return
							}
							if len(line) > 7 && line[:7] == "RESULT " {
								var r WorkResult
								if json.Unmarshal([]byte(line[7:]), &r) == nil {
									resCh <- &r
									return
								}
							}
						}
					}()
					var r *WorkResult
					select {
					case r = <-resCh:
					case <-time.After(perItem):
						syscall.Kill(-cmd.Process.Pid, syscall.SIGKILL)
						r = nil
						<-resCh
					}
					mu.Lock()
					if r != nil {
						r.Idx = cur
						results[cur] = *r
					} else {
						results[cur] = WorkResult{Idx: cur, Crash: "worker died or timed out: " + stderrBuf.String()}
						alive = false
					}
					done[cur] = true
					mu.Unlock()
					if !alive {
						break
					}
					next, ok := <-queue
					if !ok {
						break
					}
					cur = next
				}
				stdin.Close()
				if alive {
					io.Copy(io.Discard, rd)
				}
				syscall.Kill(-cmd.Process.Pid, syscall.SIGKILL)
				cmd.Wait()
			}
		}()
	}
	wg.Wait()
	return results
}

type limitedBuf struct {
	mu sync.Mutex
	b  []byte
}

func (l *limitedBuf) Write(p []byte) (int, error) {
	l.mu.Lock()
	defer l.mu.Unlock()
	if len(l.b) < 1<<15 {
		l.b = append(l.b, p...)
	}
	return len(p), nil
}
func (l *limitedBuf) String() string {
	l.mu.Lock()
	defer l.mu.Unlock()
	if len(l.b) > 6000 {
		return string(l.b[:6000])
	}
	return string(l.b)
}
