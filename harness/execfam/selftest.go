package execfam

import (
	"fmt"
	"time"
)

// SelfTest demonstrates the binding between the recorded traces and the specifications: a real trace of a
// small program is accepted by both the monitor (ExecProps) and the model (Exec, trace validation); each of a
// handful of corruptions of that trace (one field changed, one event dropped or moved) is flagged by the
// monitor and / or rejected by the model. Exit 0 only if the genuine trace passes and every corruption is caught.
func SelfTest() int {
	p := mk("selftest", 0, []string{"a", "b", "c"}, map[string]*Task{
		"a": {Deps: []CallSite{dep("b")}, Cmds: []Cmd{sh(0), call("c", "one"), {K: "dsh"}, sh(3), sh(0)}},
		"b": {Run: "once", Cmds: []Cmd{sh(0)}},
		"c": {Cmds: []Cmd{sh(0), sh(0)}},
	})
	rr := Run(Job{Prog: p, Gates: gatesFor(p)}, "/dev/shm")
	if rr.SetupErr != "" || len(rr.Trace) == 0 {
		fmt.Println("ERROR: selftest could not record a trace:", rr.SetupErr)
		return 2
	}
	clone := func() []Ev { return append([]Ev(nil), rr.Trace...) }
	idx := func(evs []Ev, e, t string, i int) int {
		for k, ev := range evs {
			if ev.E == e && ev.T == t && ev.I == i {
				return k
			}
		}
		return -1
	}
	type variant struct {
		name string
		evs  []Ev
	}
	vs := []variant{{"genuine trace", clone()}}
	{ // the dependent's first command starts before the dependency's command has ended
		evs := clone()
		i, j := idx(evs, "E", "b", 1), idx(evs, "B", "a", 1)
		if i >= 0 && j > i {
			e := evs[j]
			evs = append(evs[:j], evs[j+1:]...)
			evs = append(evs[:i], append([]Ev{e}, evs[i:]...)...)
			vs = append(vs, variant{"a#1 begins before its dependency b#1 has ended", evs})
		}
	}
	{ // a command after the failing one is reported as run
		evs := clone()
		r := len(evs) - 1
		extra := []Ev{{E: "B", P: "r1", T: "a", I: 5}, {E: "E", P: "r1", T: "a", I: 5}}
		evs = append(evs[:r], append(extra, evs[r:]...)...)
		vs = append(vs, variant{"a#5 runs after a#4 failed", evs})
	}
	{ // the final status is lost
		evs := clone()
		for k := range evs {
			if evs[k].E == "R" {
				evs[k].Class, evs[k].Code, evs[k].XCode = "nil", 0, 0
			}
		}
		vs = append(vs, variant{"the invocation returns success", evs})
	}
	{ // the callee sees another variable
		evs := clone()
		for k := range evs {
			if evs[k].T == "c" {
				evs[k].V = "two"
			}
		}
		vs = append(vs, variant{"the called task c sees V=two instead of one", evs})
	}
	{ // the deferred command is dropped
		var evs []Ev
		for _, ev := range rr.Trace {
			if !(ev.T == "a" && ev.I == 3) {
				evs = append(evs, ev)
			}
		}
		vs = append(vs, variant{"the deferred command a#3 never runs", evs})
	}
	{ // an end event is dropped: c#1 never ends but c#2 begins
		var evs []Ev
		for _, ev := range rr.Trace {
			if !(ev.E == "E" && ev.T == "c" && ev.I == 1) {
				evs = append(evs, ev)
			}
		}
		vs = append(vs, variant{"c#2 begins while c#1 is still running", evs})
	}
	ok := true
	for k, v := range vs {
		id := fmt.Sprintf("v%d", k)
		items := []TraceItem{{ID: id, Prog: 1, Evs: v.evs}}
		pv, err := ValidateProps([]*Program{p}, items)
		if err != nil {
			fmt.Println("ERROR:", err)
			return 2
		}
		mv := ValidateModel([]*Program{p}, items, "ExecTrace.cfg", time.Now().Add(5*time.Minute))
		if mv.Err != nil {
			fmt.Println("ERROR:", mv.Err)
			return 2
		}
		flagged, rejected := len(pv.ByTrace[id]) > 0, len(mv.Rejected) > 0
		fmt.Printf("selftest exec  %-55s monitor: %-8v model: %s\n", v.name+":", map[bool]string{true: "FLAGGED", false: "clean"}[flagged], map[bool]string{true: "REJECTED", false: "accepted"}[rejected])
		if k == 0 && (flagged || rejected) {
			ok = false
		}
		if k > 0 && !flagged && !rejected {
			ok = false
		}
	}
	if !ok {
		fmt.Println("ERROR: the binding self-test failed (the genuine trace must pass, every corruption must be caught)")
		return 2
	}
	return 0
}
