package remotefam

import (
	"fmt"
	"time"

	"verifharness/rep"
	"verifharness/tlc"
)

// SelfTest: a real history (approve v1; the server changes to v2; run without --yes; go offline) is clean and as the
// model predicts; corrupted observations (the unapproved content ran, the offline run did not use the cache, a
// refused approval exited 0) are flagged by the monitor and / or reported as drift.
func SelfTest() int {
	OpenKFs = rep.LoadFindings().OpenKFsOf("remote")
	base := History{ID: "g", Steps: fix([]Step{inv("insecure", "yes"), srv(2, "up"), inv("insecure"), inv("insecure", "offline")})}
	if err := Execute(&base); err != nil {
		fmt.Println("ERROR:", err)
		return 2
	}
	cp := func(id string) History {
		h := History{ID: id}
		for _, s := range base.Steps {
			h.Steps = append(h.Steps, s)
		}
		return h
	}
	hs := []History{base}
	names := []string{"genuine history"}
	{
		h := cp("c1")
		h.Steps[2].Exit, h.Steps[2].Ran = 0, 2
		hs, names = append(hs, h), append(names, "the changed content ran without approval")
	}
	{
		h := cp("c2")
		h.Steps[3].Exit, h.Steps[3].Ran = 106, 0
		hs, names = append(hs, h), append(names, "the offline run did not use the approved copy")
	}
	{
		h := cp("c3")
		h.Steps[2].Exit, h.Steps[2].Ran = 0, 1
		hs, names = append(hs, h), append(names, "the refused approval ran the old copy and exited 0")
	}
	r := tlc.Run(tlc.Opts{SpecDir: SpecDir, Extra: map[string]string{"RemoteData.tla": DataModule(hs)}, Module: "RemoteTrace", Config: "RemoteTrace.cfg", Workers: 1, Timeout: 5 * time.Minute})
	verd := map[string][2]string{}
	for _, ln := range tlc.Printed(r.Out, "VERDICT") {
		if m := verdictRe.FindStringSubmatch(ln); m != nil {
			verd[m[1]] = [2]string{m[2], m[3]}
		}
	}
	if len(verd) != len(hs) {
		fmt.Println("ERROR: TLC evaluated", len(verd), "of", len(hs), "histories:", tailS(r.Out, 1500))
		return 2
	}
	ok := true
	for k, h := range hs {
		v := verd[h.ID]
		flagged, drift := v[0] != "{}", v[1] != "{}"
		fmt.Printf("selftest remote %-54s monitor: %-8s model: %s\n", names[k]+":", map[bool]string{true: "FLAGGED", false: "clean"}[flagged], map[bool]string{true: "DRIFT", false: "as predicted"}[drift])
		if k == 0 && (flagged || drift) || k > 0 && !flagged && !drift {
			ok = false
		}
	}
	if !ok {
		fmt.Println("ERROR: the binding self-test failed")
		return 2
	}
	return 0
}
