// Package remotefam: remote Taskfiles (C20): histories of server states and CLI invocations against
// an HTTP server owned by the driver.
package remotefam

import (
	"bytes"
	"context"
	"fmt"
	"math/rand"
	"net"
	"net/http"
	"os"
	"os/exec"
	"path/filepath"
	"regexp"
	"runtime"
	"sort"
	"strconv"
	"strings"
	"sync"
	"time"

	"verifharness/rep"
	"verifharness/tlc"
)

var SpecDir = rep.Root + "/specs/remote"
var TaskBin = rep.Root + "/.work/bin/task"

type Step struct {
	Op    string   `json:"op"` // srv age inv
	V     int      `json:"v,omitempty"`
	Mode  string   `json:"mode,omitempty"`
	Flags []string `json:"flags,omitempty"`
	Exit  int      `json:"exit"`
	Ran   int      `json:"ran"`
	Out   string   `json:"out,omitempty"`
}
type History struct {
	ID    string `json:"id"`
	Steps []Step `json:"steps"`
}

func (s Step) tla() string {
	switch s.Op {
	case "srv":
		return fmt.Sprintf(`[op |-> "srv", v |-> %d, mode |-> "%s"]`, s.V, s.Mode)
	case "age":
		return `[op |-> "age"]`
	case "losesum":
		return `[op |-> "losesum"]`
	}
	fl := make([]string, len(s.Flags))
	for i, f := range s.Flags {
		fl[i] = `"` + f + `"`
	}
	return fmt.Sprintf(`[op |-> "inv", flags |-> {%s}, exit |-> %d, ran |-> %d]`, strings.Join(fl, ", "), s.Exit, s.Ran)
}

var OpenKFs []string

func DataModule(hs []History) string {
	var b strings.Builder
	b.WriteString("---- MODULE RemoteData ----\n")
	q := make([]string, len(OpenKFs))
	for i, k := range OpenKFs {
		q[i] = `"` + k + `"`
	}
	b.WriteString("KFOpen == {" + strings.Join(q, ", ") + "}\nHistories == <<\n")
	for i, h := range hs {
		if i > 0 {
			b.WriteString(",\n")
		}
		st := make([]string, len(h.Steps))
		for k, s := range h.Steps {
			st[k] = s.tla()
		}
		fmt.Fprintf(&b, ` [id |-> "%s", steps |-> <<%s>>]`, h.ID, strings.Join(st, ", "))
	}
	b.WriteString("\n>>\n====\n")
	return b.String()
}

// server: one per history, state set by the driver
type server struct {
	mu   sync.Mutex
	v    int
	mode string
	ln   net.Listener
	srv  *http.Server
	addr string
}

func (s *server) handler(w http.ResponseWriter, r *http.Request) {
	s.mu.Lock()
	v, mode := s.v, s.mode
	s.mu.Unlock()
	switch mode {
	case "slow":
		select {
		case <-time.After(1500 * time.Millisecond):
		case <-r.Context().Done():
			return
		}
	case "err500":
		http.Error(w, "boom", 500)
		return
	}
	fmt.Fprintf(w, "version: '3'\nsilent: true\ntasks:\n  hello:\n    cmds:\n      - echo %d >> \"$TRACE\"\n", v)
}

func (s *server) start() error {
	var err error
	if s.addr == "" {
		s.ln, err = net.Listen("tcp", "127.0.0.1:0")
	} else {
		for i := 0; i < 50; i++ {
			s.ln, err = net.Listen("tcp", s.addr)
			if err == nil {
				break
			}
			time.Sleep(20 * time.Millisecond)
		}
	}
	if err != nil {
		return err
	}
	s.addr = s.ln.Addr().String()
	s.srv = &http.Server{Handler: http.HandlerFunc(s.handler)}
	go s.srv.Serve(s.ln)
	return nil
}
func (s *server) stop() {
	if s.srv != nil {
		s.srv.Close()
		s.srv = nil
	}
}

func Execute(h *History) error {
	base, err := os.MkdirTemp("/dev/shm", "rm")
	if err != nil {
		return err
	}
	defer os.RemoveAll(base)
	proj, trace := filepath.Join(base, "proj"), filepath.Join(base, "trace")
	os.MkdirAll(proj, 0o755)
	os.WriteFile(trace, nil, 0o644)
	sv := &server{v: 1, mode: "up"}
	if err := sv.start(); err != nil {
		return err
	}
	defer sv.stop()
	os.WriteFile(filepath.Join(proj, "Taskfile.yml"), []byte(fmt.Sprintf("version: '3'\nincludes:\n  r: http://%s/t.yml\n", sv.addr)), 0o644)
	traceLen := 0
	for i := range h.Steps {
		s := &h.Steps[i]
		switch s.Op {
		case "srv":
			sv.mu.Lock()
			sv.v, sv.mode = s.V, s.Mode
			sv.mu.Unlock()
			if s.Mode == "refuse" {
				sv.stop()
			} else if sv.srv == nil {
				if err := sv.start(); err != nil {
					return err
				}
			}
		case "age":
			// make every cached timestamp two hours old
			files, _ := filepath.Glob(filepath.Join(proj, ".task", "remote", "*.timestamp"))
			for _, f := range files {
				os.WriteFile(f, []byte(time.Now().UTC().Add(-2*time.Hour).Format(time.RFC3339)), 0o644)
			}
		case "losesum":
			// the stored checksum is lost: deleted (even steps) or truncated (odd steps); the cached copy stays
			files, _ := filepath.Glob(filepath.Join(proj, ".task", "remote", "*.checksum"))
			for _, f := range files {
				if i%2 == 0 {
					os.Remove(f)
				} else {
					os.WriteFile(f, nil, 0o644)
				}
			}
		case "inv":
			args := []string{"r:hello"}
			for _, f := range s.Flags {
				switch f {
				case "yes":
					args = append(args, "--yes")
				case "download":
					args = append(args, "--download")
				case "offline":
					args = append(args, "--offline")
				case "expiry":
					args = append(args, "--expiry", "1h")
				case "insecure":
					args = append(args, "--insecure")
				case "timeout":
					args = append(args, "--timeout", "400ms")
				}
			}
			// every fourth invocation is a dry run (--dry --verbose): which content WOULD run is read from the
			// echoed command; approval, caching and exit status are those of a real run (the specification
			// does not distinguish: the content is fetched, approved and used either way)
			dry := (i+len(h.Steps)+len(s.Flags))%4 == 0
			if dry {
				args = append(args, "--dry", "--verbose")
			}
			ctx, cancel := context.WithTimeout(context.Background(), 30*time.Second)
			cmd := exec.CommandContext(ctx, TaskBin, args...)
			cmd.Dir = proj
			cmd.Env = append(os.Environ(), "TRACE="+trace, "TASK_X_REMOTE_TASKFILES=1", "NO_COLOR=1")
			cmd.Cancel = func() error { return cmd.Process.Kill() }
			var out bytes.Buffer
			cmd.Stdout, cmd.Stderr = &out, &out
			err := cmd.Run()
			to := ctx.Err() != nil
			cancel()
			if to {
				return fmt.Errorf("task %v timed out", args)
			}
			s.Exit = 0
			if err != nil {
				if ee, ok := err.(*exec.ExitError); ok {
					s.Exit = ee.ExitCode()
				} else {
					return err
				}
			}
			tb, _ := os.ReadFile(trace)
			s.Ran = 0
			for _, ln := range strings.Fields(string(tb[traceLen:])) {
				s.Ran, _ = strconv.Atoi(ln)
			}
			traceLen = len(tb)
			if dry {
				if m := dryRe.FindStringSubmatch(out.String()); m != nil {
					s.Ran, _ = strconv.Atoi(m[1])
				}
			}
			s.Out = out.String()
			if len(s.Out) > 240 {
				s.Out = s.Out[:240]
			}
		}
	}
	return nil
}

var dryRe = regexp.MustCompile(`task: \[r:hello\] echo (\d+) >>`)

var allFlags = []string{"yes", "download", "offline", "expiry", "insecure"}

func flagSets() [][]string {
	var out [][]string
	for m := 0; m < 1<<len(allFlags); m++ {
		var fs []string
		for i, f := range allFlags {
			if m&(1<<i) != 0 {
				fs = append(fs, f)
			}
		}
		has := func(x string) bool {
			for _, f := range fs {
				if f == x {
					return true
				}
			}
			return false
		}
		if has("download") && has("offline") {
			continue
		}
		out = append(out, fs)
	}
	return out
}

func inv(flags ...string) Step { return Step{Op: "inv", Flags: flags} }
func srv(v int, mode string) Step { return Step{Op: "srv", V: v, Mode: mode} }

// withTimeout adds the short timeout when the server is slow (keeps slow cases affordable)
func fix(steps []Step) []Step {
	mode := "up"
	out := make([]Step, 0, len(steps))
	for _, s := range steps {
		if s.Op == "srv" {
			mode = s.Mode
		}
		if s.Op == "inv" {
			var fl []string
			for _, f := range s.Flags {
				if f != "timeout" {
					fl = append(fl, f)
				}
			}
			if mode == "slow" {
				fl = append(fl, "timeout")
			}
			sort.Strings(fl)
			s.Flags = fl
		}
		out = append(out, s)
	}
	return out
}

// Systematic: [first approve or not] ; [server change] ; [age] ; X   for every flag set X
func Systematic() []History {
	var hs []History
	add := func(steps ...Step) { hs = append(hs, History{Steps: fix(steps)}) }
	servers := []Step{srv(1, "up"), srv(2, "up"), srv(1, "refuse"), srv(2, "refuse"), srv(1, "err500"), srv(1, "slow")}
	for _, fs := range flagSets() {
		add(inv(fs...))
		add(inv(fs...), inv(fs...))
		for _, sv := range servers {
			add(sv, inv(fs...))
			add(inv("insecure", "yes"), sv, inv(fs...))
			add(inv("insecure", "yes"), sv, Step{Op: "age"}, inv(fs...))
			add(inv("insecure", "yes", "expiry"), sv, inv(fs...), inv("insecure"))
			add(inv("insecure", "yes"), sv, Step{Op: "losesum"}, inv(fs...), inv("insecure", "offline"))
		}
	}
	return hs
}

func Random(r *rand.Rand, n, maxLen int) []History {
	fsets := flagSets()
	modes := []string{"up", "up", "refuse", "err500", "slow"}
	var hs []History
	for len(hs) < n {
		var steps []Step
		L := 3 + r.Intn(maxLen-2)
		for len(steps) < L {
			switch r.Intn(6) {
			case 0:
				steps = append(steps, srv(1+r.Intn(2), modes[r.Intn(len(modes))]))
			case 1:
				steps = append(steps, Step{Op: "age"})
				if r.Intn(3) == 0 {
					steps = append(steps, Step{Op: "losesum"})
				}
			default:
				steps = append(steps, inv(fsets[r.Intn(len(fsets))]...))
			}
		}
		hs = append(hs, History{Steps: fix(steps)})
	}
	return hs
}

var verdictRe = regexp.MustCompile(`^"VERDICT\|([^|]*)\|(.*)\|(.*)"$`)
var violRe = regexp.MustCompile(`\[prop \|-> \\?"([^"\\]+)\\?", sig \|-> \\?"([^"\\]+)\\?"\]`)

func Pretty(h History) string {
	var p []string
	for _, s := range h.Steps {
		switch s.Op {
		case "srv":
			p = append(p, fmt.Sprintf("server(v%d,%s)", s.V, s.Mode))
		case "age":
			p = append(p, "age-cache")
		case "losesum":
			p = append(p, "lose-checksum")
		default:
			p = append(p, fmt.Sprintf("task%v→exit%d,ran-v%d", s.Flags, s.Exit, s.Ran))
		}
	}
	return strings.Join(p, " ; ")
}

func Check(tier string) int {
	t0 := time.Now()
	seed := rep.Seed()
	rp := rep.NewReporter("C20")
	kf := rep.LoadFindings()
	OpenKFs = kf.OpenKFsOf("remote")
	maxSteps, nRandom, stride := 5, 40, 5
	if tier == "thorough" {
		maxSteps, nRandom, stride = 7, 1500, 1
	}
	cfg := fmt.Sprintf("SPECIFICATION Spec\nCONSTANTS\n  KF <- KFNone\n  MaxSteps = %d\nINVARIANT Inv_C20\nCHECK_DEADLOCK FALSE\n", maxSteps)
	mc := tlc.Run(tlc.Opts{SpecDir: SpecDir, Extra: map[string]string{"RemoteData.tla": DataModule(nil), "Gen.cfg": cfg}, Module: "RemoteMC", Config: "Gen.cfg",
		Workers: runtime.NumCPU(), Timeout: 10 * time.Minute})
	if !mc.OK {
		fmt.Println(tailS(mc.Out, 4000))
		fmt.Printf("ERROR: TLC reports %q on the DESIGN model of remote Taskfiles (model-level, exit 2)\n", mc.Violation)
		return 2
	}
	sys := Systematic()
	var hs []History
	for i, h := range sys {
		if stride == 1 || (i+int(seed))%stride == 0 {
			hs = append(hs, h)
		}
	}
	hs = append(hs, Random(rand.New(rand.NewSource(seed*4099+3)), nRandom, 7)...)
	for i := range hs {
		hs[i].ID = fmt.Sprintf("h%d", i)
	}
	errs := make([]error, len(hs))
	var wg sync.WaitGroup
	ch := make(chan int, len(hs))
	for i := range hs {
		ch <- i
	}
	close(ch)
	for w := 0; w < runtime.NumCPU(); w++ {
		wg.Add(1)
		go func() {
			defer wg.Done()
			for i := range ch {
				errs[i] = Execute(&hs[i])
			}
		}()
	}
	wg.Wait()
	var good []History
	nerr := 0
	for i, e := range errs {
		if e != nil {
			nerr++
			if nerr <= 3 {
				fmt.Printf("ERROR: history %s: %v\n", hs[i].ID, e)
			}
			continue
		}
		good = append(good, hs[i])
	}
	if len(good) == 0 {
		fmt.Println("ERROR: no history could be executed (exit 2)")
		return 2
	}
	r := tlc.Run(tlc.Opts{SpecDir: SpecDir, Extra: map[string]string{"RemoteData.tla": DataModule(good)}, Module: "RemoteTrace", Config: "RemoteTrace.cfg", Workers: 1, Timeout: 10 * time.Minute})
	type verdict struct {
		viols []rep.Viol
		drift string
	}
	vs := map[string]verdict{}
	for _, ln := range tlc.Printed(r.Out, "VERDICT") {
		if m := verdictRe.FindStringSubmatch(ln); m != nil {
			var v verdict
			for _, x := range violRe.FindAllStringSubmatch(m[2], -1) {
				v.viols = append(v.viols, rep.Viol{Prop: x[1], Sig: x[2]})
			}
			if m[3] != "{}" {
				v.drift = m[3]
			}
			vs[m[1]] = v
		}
	}
	if len(vs) != len(good) {
		fmt.Printf("ERROR: TLC evaluated %d of %d histories\n%s\n", len(vs), len(good), tailS(r.Out, 3000))
		return 2
	}
	seen := map[string]int{}
	drift := 0
	distinct := map[string]bool{}
	var samples []any
	for _, h := range good {
		v := vs[h.ID]
		distinct[Pretty(h)] = true
		if len(samples) < 3 && len(h.Steps) >= 3 {
			samples = append(samples, Pretty(h))
		}
		if v.drift != "" {
			drift++
			if drift <= 4 {
				rp.Note("NONCONFORMANCE: Remote.tla decides otherwise for %s: %s", Pretty(h), v.drift)
			}
		}
		for _, x := range v.viols {
			seen[x.Sig]++
			if seen[x.Sig] > 1 {
				continue
			}
			if f := kf.Open("C20", x.Sig); f != nil {
				rp.KnownFinding(f)
				continue
			}
			// confirm
			h2 := History{ID: "re"}
			for _, s := range h.Steps {
				h2.Steps = append(h2.Steps, Step{Op: s.Op, V: s.V, Mode: s.Mode, Flags: s.Flags})
			}
			confirmed := false
			if Execute(&h2) == nil {
				r2 := tlc.Run(tlc.Opts{SpecDir: SpecDir, Extra: map[string]string{"RemoteData.tla": DataModule([]History{h2})}, Module: "RemoteTrace", Config: "RemoteTrace.cfg", Workers: 1, Timeout: 2 * time.Minute})
				confirmed = strings.Contains(r2.Out, x.Sig)
			}
			path := rep.WriteReplay("C20", map[string]any{"property": "C20", "sig": x.Sig, "history": h, "pretty": Pretty(h), "confirmed": confirmed})
			if confirmed {
				rp.Note("violation C20/%s: %s", x.Sig, Pretty(h))
				rp.Violation(path)
			} else {
				rp.Note("NOTE: C20/%s seen once, not reproduced (%s)", x.Sig, path)
			}
		}
	}
	if len(samples) == 0 {
		samples = append(samples, Pretty(good[0]))
	}
	ev := rep.Evidence{PropertyID: "C20", Tier: tier, Seed: seed, Level: "model_checking",
		Coverage: map[string]any{"states": mc.Distinct, "transitions": mc.Generated, "traces_validated_against_impl": len(good), "samples": samples,
			"evaluations": len(good), "distinct_nontrivial": len(distinct),
			"rule": "histories: [approve first];[server change: version 1/2, up / connection refused / HTTP 500 / slower than --timeout];[age the cache timestamp]; invocation with every subset of --yes --download --offline --expiry --insecure (stride " + fmt.Sprint(stride) + ") plus seeded random histories; every invocation is a run of the task CLI (TASK_X_REMOTE_TASKFILES=1) against an HTTP server owned by the driver; exit status and the version whose body ran are judged by TLC with the RemoteProps monitor and compared with Remote.tla",
			"mc_depth": maxSteps, "histories_systematic_total": len(sys), "model_drift_histories": drift, "harness_errors": nerr, "violation_signatures": seen, "exhaustive": false},
		Assumptions: []string{"approval only through --yes (no terminal in the sandbox: an interactive 'y' is not exercised)", "http only (no TLS), one remote include, two content versions", "the slow server is observed with --timeout 400ms"},
		WallS: time.Since(t0).Seconds(), Violations: rp.Violations}
	ev.Write()
	fmt.Printf("C20 %s: MC %d states ok, %d histories (%d distinct), %d drift, %d violation(s) %v, %.1fs\n", tier, mc.Distinct, len(good), len(distinct), drift, rp.Violations, seen, time.Since(t0).Seconds())
	if rp.Violations > 0 {
		return 1
	}
	return 0
}

func tailS(s string, n int) string {
	if len(s) > n {
		return s[len(s)-n:]
	}
	return s
}
