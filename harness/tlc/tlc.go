// Package tlc runs TLC on a specification in a scratch directory and parses what it prints.
package tlc

import (
	"bytes"
	"context"
	"fmt"
	"os"
	"os/exec"
	"path/filepath"
	"regexp"
	"strconv"
	"strings"
	"syscall"
	"time"
)

type Opts struct {
	SpecDir   string            // directory holding the hand-written modules (copied into scratch)
	Extra     map[string]string // generated modules: file name -> content
	Module    string            // root module (without .tla)
	Config    string            // cfg file name (in SpecDir or Extra)
	Workers   int
	Timeout   time.Duration
	Simulate  string // e.g. "num=100" ; empty = model checking
	Depth     int
	Seed      int64
	Coverage  bool
	Deadlock  bool // check deadlock (default: cfg decides; this adds nothing) – unused
	DFS       bool // depth-first state queue
	ExtraArgs []string
	KeepDir   bool
	HeapMB    int // -Xmx for this run (0 = the JVM default, a quarter of the machine)
}

type Result struct {
	Out       string
	Generated int64
	Distinct  int64
	Depth     int
	OK        bool // "Model checking completed. No error has been found."
	Violation string // invariant / property name, or "deadlock", or ""
	TimedOut  bool
	Err       error
	Wall      time.Duration
	Dir       string
	ErrTrace  string
}

var reStates = regexp.MustCompile(`(\d+) states generated, (\d+) distinct states found`)
var reDepth = regexp.MustCompile(`The depth of the complete state graph search is (\d+)`)
var reInv = regexp.MustCompile(`Invariant (\S+) is violated`)
var reProp = regexp.MustCompile(`Temporal properties were violated|Action property (\S+) is violated`)

// Scratch returns a fresh scratch directory under /verif/.work (never /tmp).
func Scratch(prefix string) string {
	base := os.Getenv("VERIF_WORK")
	if base == "" {
		base = "/verif/.work"
		if r := os.Getenv("VERIF_ROOT"); r != "" {
			base = r + "/.work"
		}
	}
	os.MkdirAll(filepath.Join(base, "tlc"), 0o755)
	d, err := os.MkdirTemp(filepath.Join(base, "tlc"), prefix)
	if err != nil {
		panic(err)
	}
	return d
}

func Run(o Opts) Result {
	var r Result
	dir := Scratch(o.Module)
	r.Dir = dir
	if !o.KeepDir {
		defer os.RemoveAll(dir)
	}
	ents, _ := os.ReadDir(o.SpecDir)
	for _, e := range ents {
		if e.IsDir() {
			continue
		}
		b, err := os.ReadFile(filepath.Join(o.SpecDir, e.Name()))
		if err == nil {
			os.WriteFile(filepath.Join(dir, e.Name()), b, 0o644)
		}
	}
	for name, content := range o.Extra {
		os.WriteFile(filepath.Join(dir, name), []byte(content), 0o644)
	}
	if o.Workers <= 0 {
		o.Workers = 1
	}
	if o.Timeout <= 0 {
		o.Timeout = 5 * time.Minute
	}
	args := []string{"-XX:+UseParallelGC", "-Xss64m"}
	if o.HeapMB > 0 {
		args = append(args, fmt.Sprintf("-Xmx%dm", o.HeapMB))
	}
	if o.DFS {
		args = append(args, "-Dtlc2.tool.queue.IStateQueue=StateDeque")
	}
	args = append(args, "-cp", "/opt/veriftools/tla/tla2tools.jar:/opt/veriftools/tla/CommunityModules-deps.jar", "tlc2.TLC",
		"-metadir", filepath.Join(dir, "meta"), "-workers", strconv.Itoa(o.Workers), "-config", o.Config, "-noGenerateSpecTE")
	if o.Simulate != "" {
		args = append(args, "-simulate", o.Simulate)
		if o.Depth > 0 {
			args = append(args, "-depth", strconv.Itoa(o.Depth))
		}
	}
	if o.Seed != 0 {
		args = append(args, "-seed", strconv.FormatInt(o.Seed, 10))
	}
	if o.Coverage {
		args = append(args, "-coverage", "1")
	}
	args = append(args, o.ExtraArgs...)
	args = append(args, o.Module+".tla")
	ctx, cancel := context.WithTimeout(context.Background(), o.Timeout)
	defer cancel()
	cmd := exec.CommandContext(ctx, "java", args...)
	cmd.Dir = dir
	cmd.SysProcAttr = &syscall.SysProcAttr{Setpgid: true, Pdeathsig: syscall.SIGKILL}
	cmd.Cancel = func() error { return syscall.Kill(-cmd.Process.Pid, syscall.SIGKILL) }
	var buf bytes.Buffer
	cmd.Stdout = &buf
	cmd.Stderr = &buf
	t0 := time.Now()
	err := cmd.Run()
	r.Wall = time.Since(t0)
	r.Out = buf.String()
	if ctx.Err() != nil {
		r.TimedOut = true
	}
	if m := reStates.FindAllStringSubmatch(r.Out, -1); len(m) > 0 {
		last := m[len(m)-1]
		r.Generated, _ = strconv.ParseInt(last[1], 10, 64)
		r.Distinct, _ = strconv.ParseInt(last[2], 10, 64)
	}
	if m := reDepth.FindStringSubmatch(r.Out); m != nil {
		r.Depth, _ = strconv.Atoi(m[1])
	}
	r.OK = strings.Contains(r.Out, "Model checking completed. No error has been found.") ||
		(o.Simulate != "" && err == nil && !strings.Contains(r.Out, "Error:"))
	if m := reInv.FindStringSubmatch(r.Out); m != nil {
		r.Violation = m[1]
	} else if strings.Contains(r.Out, "Deadlock reached") {
		r.Violation = "deadlock"
	} else if m := reProp.FindStringSubmatch(r.Out); m != nil {
		r.Violation = "temporal:" + m[1]
	}
	if i := strings.Index(r.Out, "Error: The behavior up to this point is"); i >= 0 {
		r.ErrTrace = r.Out[i:]
	} else if i := strings.Index(r.Out, "Error:"); i >= 0 && !r.OK {
		r.ErrTrace = r.Out[i:]
	}
	if err != nil && r.Violation == "" && !r.TimedOut && !r.OK {
		r.Err = fmt.Errorf("tlc: %v", err)
	}
	return r
}

// Printed returns the values printed by PrintT(<<"TAG", ...>>) lines starting with <<"TAG".
func Printed(out, tag string) []string {
	var res []string
	pre := `<<"` + tag + `"`
	pre2 := `"` + tag + `|`
	for _, ln := range strings.Split(out, "\n") {
		ln = strings.TrimSpace(ln)
		if strings.HasPrefix(ln, pre) || strings.HasPrefix(ln, pre2) {
			res = append(res, ln)
		}
	}
	return res
}

// Apalache runs apalache-mc check on a module of specDir and reports whether the outcome is NoError.
func Apalache(specDir, module string, timeout time.Duration, args ...string) (bool, string) {
	dir := Scratch("apa")
	defer os.RemoveAll(dir)
	ents, _ := os.ReadDir(specDir)
	for _, e := range ents {
		if b, err := os.ReadFile(filepath.Join(specDir, e.Name())); err == nil {
			os.WriteFile(filepath.Join(dir, e.Name()), b, 0o644)
		}
	}
	ctx, cancel := context.WithTimeout(context.Background(), timeout)
	defer cancel()
	full := append([]string{"check", "--out-dir=" + filepath.Join(dir, "out")}, args...)
	full = append(full, module+".tla")
	cmd := exec.CommandContext(ctx, "apalache-mc", full...)
	cmd.Dir = dir
	cmd.SysProcAttr = &syscall.SysProcAttr{Setpgid: true, Pdeathsig: syscall.SIGKILL}
	cmd.Cancel = func() error { return syscall.Kill(-cmd.Process.Pid, syscall.SIGKILL) }
	var buf bytes.Buffer
	cmd.Stdout, cmd.Stderr = &buf, &buf
	cmd.Run()
	out := buf.String()
	return strings.Contains(out, "The outcome is: NoError"), out
}
