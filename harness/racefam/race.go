// Package racefam: C18 - the specification-generated concurrent workloads and schedules are run in a
// -race build of the harness; the Go race detector is the oracle.
package racefam

import (
	"bufio"
	"bytes"
	"context"
	"encoding/json"
	"fmt"
	"io"
	"math/rand"
	"os"
	"os/exec"
	"path/filepath"
	"regexp"
	"runtime"
	"sort"
	"strings"
	"sync"
	"syscall"
	"time"

	"github.com/go-task/task/v3"

	"verifharness/execfam"
	"verifharness/rep"
)

// extra workloads: features that share memory but are outside the Exec model (matrix refs,
// dynamic variables, listing while compiling, prefixed / group writers)
var workloads = map[string]string{
	// tasks reached by wildcard names and by aliases from parallel deps and calls (name resolution while running)
	"wildcard-alias": `version: '3'
silent: true
tasks:
  default:
    deps: [build-a, build-b, bb, build-c, al1, al2, 'x:y:z', build-a]
    cmds:
      - task: build-d
      - task: al1
  'build-*':
    aliases: [bb]
    cmds: ['echo build {{index .MATCH 0}}']
  '*:*:*':
    cmds: ['echo {{.MATCH}}']
  one:
    aliases: [al1]
    deps: [build-e, al2]
    cmds: ['echo one']
  two:
    aliases: [al2]
    cmds: ['echo two']
`,
	"matrix-ref": `version: '3'
silent: true
vars:
  LIST_A: {map: [1, 2, 3]}
  LIST_B: {map: [x, y]}
tasks:
  default:
    deps:
      - task: m
        vars: {L: {ref: .LIST_A}}
      - task: m
        vars: {L: {ref: .LIST_B}}
      - task: m
        vars: {L: {ref: .LIST_A}}
  m:
    cmds:
      - for: {matrix: {X: {ref: .L}, Y: [a, b]}}
        cmd: echo "{{.ITEM.X}}{{.ITEM.Y}}"
`,
	"dynamic-vars": `version: '3'
silent: true
vars:
  G: {sh: echo global}
tasks:
  default:
    deps: [a, b, c, a, b]
  a: {vars: {D: {sh: echo a}}, cmds: ['echo {{.D}}{{.G}}']}
  b: {vars: {D: {sh: echo a}}, dir: ./sub, cmds: ['echo {{.D}}{{.G}}']}
  c: {vars: {D: {sh: echo c}}, env: {E: {sh: echo e}}, cmds: ['echo {{.D}}{{.G}}$E']}
`,
	"prefixed": `version: '3'
silent: true
output: prefixed
tasks:
  default: {deps: [a, b, c]}
  a: {cmds: ["printf 'a1\na2\n'", "printf 'a3'"]}
  b: {cmds: ["printf 'b1\n'"], prefix: 'p-{{.TASK}}'}
  c: {cmds: ["printf 'c1'; printf 'c2\n'"]}
`,
	"group": `version: '3'
silent: true
output: {group: {begin: 'B {{.TASK}}', end: 'E {{.TASK}}'}}
tasks:
  default: {deps: [a, b, c]}
  a: {cmds: ["printf 'a1\na2\n'", "printf 'a3'"]}
  b: {cmds: ["printf 'b1\n'"]}
  c: {cmds: ["printf 'c1'; printf 'c2\n'"]}
`,
	"for-deps-once": `version: '3'
silent: true
tasks:
  default:
    deps:
      - for: [one, two, three]
        task: w
        vars: {V: '{{.ITEM}}'}
      - task: o
      - task: o
    cmds:
      - for: [p, q]
        task: w
        vars: {V: '{{.ITEM}}'}
  w: {run: when_changed, deps: [o], cmds: ['echo w{{.V}}']}
  o: {run: once, sources: ['*.txt'], cmds: ['echo o']}
`,
	"includes": `version: '3'
silent: true
includes:
  x: {taskfile: ./inc, vars: {IV: x}}
  y: {taskfile: ./inc, vars: {IV: y}}
tasks:
  default: {deps: ['x:t', 'y:t', 'x:u', 'y:u']}
`,
}

const incFile = `version: '3'
silent: true
vars: {FV: f}
tasks:
  t: {deps: [u], cmds: ['echo t{{.IV}}{{.FV}}']}
  u: {run: once, cmds: ['echo u{{.IV}}']}
`

func runWorkload(name, content string, par bool) {
	dir, err := os.MkdirTemp("/dev/shm", "rc")
	if err != nil {
		return
	}
	defer os.RemoveAll(dir)
	os.WriteFile(filepath.Join(dir, "Taskfile.yml"), []byte(content), 0o644)
	os.MkdirAll(filepath.Join(dir, "sub"), 0o755)
	os.MkdirAll(filepath.Join(dir, "inc"), 0o755)
	os.WriteFile(filepath.Join(dir, "inc", "Taskfile.yml"), []byte(incFile), 0o644)
	os.WriteFile(filepath.Join(dir, "a.txt"), []byte("1"), 0o644)
	var out bytes.Buffer
	e := task.NewExecutor(task.WithDir(dir), task.WithStdout(&lockedWriter{w: &out}), task.WithStderr(io.Discard), task.WithVersionCheck(false), task.WithColor(false),
		task.WithParallel(par), task.WithConcurrency(0),
		task.WithTempDir(task.TempDir{Remote: filepath.Join(dir, ".task"), Fingerprint: filepath.Join(dir, ".task")}))
	if err := e.Setup(); err != nil {
		return
	}
	var wg sync.WaitGroup
	wg.Add(2)
	go func() { defer wg.Done(); e.ListTasks(task.ListOptions{ListAllTasks: true}) }()
	go func() {
		defer wg.Done()
		ctx, c := context.WithTimeout(context.Background(), 20*time.Second)
		defer c()
		e.Run(ctx, &task.Call{Task: "default"})
	}()
	wg.Wait()
}

type lockedWriter struct {
	mu sync.Mutex
	w  io.Writer
}

func (l *lockedWriter) Write(p []byte) (int, error) {
	l.mu.Lock()
	defer l.mu.Unlock()
	return l.w.Write(p)
}

// WorkerMain (runs in the -race binary): programs as JSON lines on stdin; every program is run
// with a few seeded release orders, then the extra workloads.
func WorkerMain() {
	in := bufio.NewReaderSize(os.Stdin, 1<<20)
	dec := json.NewDecoder(in)
	n := 0
	for {
		var w execfam.WorkItem
		if err := dec.Decode(&w); err != nil {
			break
		}
		execfam.Explore(w, "/dev/shm")
		n++
	}
	reps := 3
	if os.Getenv("VERIF_RACE_REPS") != "" {
		fmt.Sscanf(os.Getenv("VERIF_RACE_REPS"), "%d", &reps)
	}
	names := make([]string, 0, len(workloads))
	for k := range workloads {
		names = append(names, k)
	}
	sort.Strings(names)
	for r := 0; r < reps; r++ {
		for _, k := range names {
			runtime.GOMAXPROCS([]int{2, 4, 16}[r%3])
			runWorkload(k, workloads[k], r%2 == 1)
		}
	}
	fmt.Printf("DONE %d programs, %d workload runs\n", n, reps*len(names))
}

var frameRe = regexp.MustCompile(`(?m)^\s+(github\.com/go-task/task/v3\S*?)\(\)\s*$`)

type report struct {
	Sig  string
	Text string
}

func parseReports(dir string) []report {
	var out []report
	files, _ := filepath.Glob(filepath.Join(dir, "race.*"))
	for _, f := range files {
		b, _ := os.ReadFile(f)
		for _, blk := range strings.Split(string(b), "==================") {
			if !strings.Contains(blk, "WARNING: DATA RACE") {
				continue
			}
			// the two access stacks are the first two paragraphs
			paras := strings.Split(strings.TrimSpace(blk), "\n\n")
			var tops []string
			for _, p := range paras {
				if strings.HasPrefix(strings.TrimSpace(p), "Goroutine") {
					break
				}
				m := frameRe.FindAllStringSubmatch(p, -1)
				top := ""
				for _, x := range m {
					if !strings.Contains(x[1], "verifhook") {
						top = strings.TrimPrefix(x[1], "github.com/go-task/task/v3")
						break
					}
				}
				if strings.Contains(p, "by goroutine") || strings.Contains(p, "by main goroutine") {
					tops = append(tops, top)
				}
			}
			if len(tops) < 2 || tops[0] == "" || tops[1] == "" {
				continue // not Task frames on both sides
			}
			sort.Strings(tops)
			out = append(out, report{Sig: tops[0] + " <-> " + tops[1], Text: strings.TrimSpace(blk)})
		}
	}
	return out
}

func Check(tier string) int {
	t0 := time.Now()
	seed := rep.Seed()
	rp := rep.NewReporter("C18")
	kf := rep.LoadFindings()
	raceBin := rep.Root + "/.work/bin/check-race"
	if _, err := os.Stat(raceBin); err != nil {
		fmt.Println("ERROR: the -race build of the harness is missing (exit 2):", err)
		return 2
	}
	nprog, nseeds, reps := 40, 3, 4
	if tier == "thorough" {
		nprog, nseeds, reps = 400, 8, 40
	}
	progs := execfam.Core()
	rng := rand.New(rand.NewSource(seed*15485863 + 9))
	prof := execfam.Profile("C06")
	prof.PFor, prof.PDefer, prof.PCall = 0.25, 0.15, 0.35
	for i := 0; i < nprog; i++ {
		progs = append(progs, execfam.Gen(rng, prof, fmt.Sprintf("r%d", i)))
	}
	logdir, _ := os.MkdirTemp(rep.Root+"/.work", "race")
	defer os.RemoveAll(logdir)
	workers := runtime.NumCPU() / 2
	var wg sync.WaitGroup
	var mu sync.Mutex
	outputs := []string{}
	crashes := 0
	for w := 0; w < workers; w++ {
		wg.Add(1)
		go func(w int) {
			defer wg.Done()
			cmd := exec.Command(raceBin, "worker-race")
			cmd.Env = append(os.Environ(), "GORACE=log_path="+filepath.Join(logdir, "race")+" halt_on_error=0 history_size=3", fmt.Sprintf("VERIF_RACE_REPS=%d", reps))
			cmd.SysProcAttr = &syscall.SysProcAttr{Setpgid: true, Pdeathsig: syscall.SIGKILL}
			stdin, _ := cmd.StdinPipe()
			var out bytes.Buffer
			cmd.Stdout, cmd.Stderr = &out, &out
			if cmd.Start() != nil {
				return
			}
			for i := w; i < len(progs); i += workers {
				var seeds []uint64
				for s := 0; s < nseeds; s++ {
					seeds = append(seeds, uint64(seed)*7919+uint64(i)*31+uint64(s)+1)
				}
				b, _ := json.Marshal(execfam.WorkItem{Idx: i, Prog: progs[i], Seeds: seeds, Procs: []int{2, 4, 16}})
				stdin.Write(append(b, '\n'))
			}
			stdin.Close()
			done := make(chan error, 1)
			go func() { done <- cmd.Wait() }()
			select {
			case <-done:
			case <-time.After(25 * time.Minute):
				syscall.Kill(-cmd.Process.Pid, syscall.SIGKILL)
			}
			mu.Lock()
			outputs = append(outputs, out.String())
			if !strings.Contains(out.String(), "DONE ") {
				crashes++
			}
			mu.Unlock()
		}(w)
	}
	wg.Wait()
	if crashes == workers {
		for _, o := range outputs {
			fmt.Println(tail(o, 2000))
		}
		fmt.Println("ERROR: no race worker finished (exit 2)")
		return 2
	}
	reports := parseReports(logdir)
	seen := map[string]int{}
	for _, r := range reports {
		seen[r.Sig]++
		if seen[r.Sig] > 1 {
			continue
		}
		if f := kf.Open("C18", r.Sig); f != nil {
			rp.KnownFinding(f)
			continue
		}
		path := rep.WriteReplay("C18", map[string]any{"property": "C18", "sig": r.Sig, "report": r.Text})
		rp.Note("violation C18/%s\n%s", r.Sig, tail(r.Text, 1500))
		rp.Violation(path)
	}
	runs := len(progs)*nseeds + reps*len(workloads)*workers
	ev := rep.Evidence{PropertyID: "C18", Tier: tier, Seed: seed, Level: "exploration",
		Coverage: map[string]any{"evaluations": runs, "distinct_nontrivial": len(progs) + len(workloads),
			"rule": "the hand-written core programs and seeded programs of the Exec specification family (parallel deps, nested calls, deduplicated tasks, for-loops, defers) are executed by a -race build of the harness with seeded release orders of the blocked probes under GOMAXPROCS 2/4/16, plus fixed workloads for features outside the Exec model (matrix refs resolved from parallel deps, dynamic variables in different directories, prefixed and group output, includes of one file under two namespaces, listing while running); a race report counts when both access stacks contain a frame of github.com/go-task/task/v3; distinct = different program / workload",
			"samples": []any{map[string]any{"workload": "matrix-ref", "taskfile": workloads["matrix-ref"]}, map[string]any{"program": progs[2].ID, "taskfile": progs[2].Taskfile()}},
			"race_reports": len(reports), "report_signatures": seen, "workers_crashed": crashes},
		Assumptions: []string{"the Go race detector only sees executed interleavings; the specification supplies workloads and schedules, it does not model memory accesses (DESIGN 8)"},
		WallS: time.Since(t0).Seconds(), Violations: rp.Violations}
	ev.Write()
	fmt.Printf("C18 %s: %d programs x %d schedules + %d workload runs under -race, %d report(s) %v, %d violation(s), %.1fs\n", tier, len(progs), nseeds, reps*len(workloads)*workers, len(reports), seen, rp.Violations, time.Since(t0).Seconds())
	if rp.Violations > 0 {
		return 1
	}
	return 0
}

func tail(s string, n int) string {
	if len(s) > n {
		return s[len(s)-n:]
	}
	return s
}
