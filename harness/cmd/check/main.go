package main

import (
	"encoding/json"
	"fmt"
	"os"
	"strings"
	"time"

	"verifharness/clifam"
	"verifharness/execfam"
	"verifharness/fpfam"
	"verifharness/loadfam"
	"verifharness/outfam"
	"verifharness/racefam"
	"verifharness/remotefam"
	"verifharness/rep"
	"verifharness/shapefam"
)

func main() {
	if len(os.Args) < 2 {
		fmt.Println("usage: check <property> <tier> | check dbg-exec <program.json> [prefix-json]")
		os.Exit(2)
	}
	if len(os.Args) >= 4 && os.Args[2] == "--replay" {
		switch os.Args[1] {
		case "C04", "C05", "C12":
			os.Exit(fpfam.Replay(os.Args[3]))
		}
		os.Exit(execfam.ReplayExec(os.Args[3]))
	}
	switch os.Args[1] {
	case "C17":
		tier := "quick"
		if len(os.Args) > 2 {
			tier = os.Args[2]
		}
		os.Exit(outfam.Check(tier))
	case "C20":
		tier := "quick"
		if len(os.Args) > 2 {
			tier = os.Args[2]
		}
		os.Exit(remotefam.Check(tier))
	case "C19":
		tier := "quick"
		if len(os.Args) > 2 {
			tier = os.Args[2]
		}
		os.Exit(clifam.Check(tier))
	case "C08", "C09":
		tier := "quick"
		if len(os.Args) > 2 {
			tier = os.Args[2]
		}
		os.Exit(loadfam.CheckMerge(os.Args[1], tier))
	case "grow-locate":
		os.Exit(loadfam.GrowLocate())
	case "grow-special":
		os.Exit(loadfam.GrowSpecial())
	case "grow-echo":
		os.Exit(loadfam.GrowEcho())
	case "grow-exitcodes":
		os.Exit(clifam.GrowExitCodes())
	case "coverage":
		os.Exit(execfam.Coverage())
	case "selftest":
		rc := execfam.SelfTest()
		if r := fpfam.SelfTest(); r > rc {
			rc = r
		}
		if r := outfam.SelfTest(); r > rc {
			rc = r
		}
		if r := remotefam.SelfTest(); r > rc {
			rc = r
		}
		os.Exit(rc)
	case "grow":
		// every specification grown beyond the listed properties, against the CLI
		rc := 0
		for _, f := range []func() int{loadfam.GrowLocate, loadfam.GrowSpecial, loadfam.GrowEcho, clifam.GrowExitCodes} {
			if r := f(); r > rc {
				rc = r
			}
		}
		os.Exit(rc)
	case "C11":
		tier := "quick"
		if len(os.Args) > 2 {
			tier = os.Args[2]
		}
		os.Exit(loadfam.CheckC11(tier))
	case "C10":
		tier := "quick"
		if len(os.Args) > 2 {
			tier = os.Args[2]
		}
		os.Exit(loadfam.CheckC10(tier))
	case "C15":
		tier := "quick"
		if len(os.Args) > 2 {
			tier = os.Args[2]
		}
		os.Exit(loadfam.CheckC15(tier))
	case "C04", "C05", "C12":
		tier := "quick"
		if len(os.Args) > 2 {
			tier = os.Args[2]
		}
		os.Exit(fpfam.Check(os.Args[1], tier))
	case "C01", "C02", "C03", "C06", "C07", "C13", "C14":
		tier := "quick"
		if len(os.Args) > 2 {
			tier = os.Args[2]
		}
		os.Exit(execfam.CheckExec(os.Args[1], tier))
	case "worker-race":
		racefam.WorkerMain()
		return
	case "C18":
		tier := "quick"
		if len(os.Args) > 2 {
			tier = os.Args[2]
		}
		os.Exit(racefam.Check(tier))
	case "worker-shape":
		shapefam.WorkerMain()
		return
	case "C16":
		tier := "quick"
		if len(os.Args) > 2 {
			tier = os.Args[2]
		}
		os.Exit(shapefam.Check(tier))
	case "worker-exec":
		execfam.WorkerMain()
		return
	case "dbg-gen":
		// dbg-gen <prop> <seed> <index>: print the generated program
		var seed, idx int64
		fmt.Sscanf(os.Args[3], "%d", &seed)
		fmt.Sscanf(os.Args[4], "%d", &idx)
		p := execfam.GenNth(os.Args[2], seed, int(idx))
		b, _ := json.MarshalIndent(p, "", " ")
		fmt.Println(string(b))
		fmt.Println(p.Taskfile())
		return
	case "dbg-dfs":
		execfam.OpenKFs = rep.LoadFindings().OpenKFs()
		b, err := os.ReadFile(os.Args[2])
		if err != nil {
			panic(err)
		}
		var p execfam.Program
		if err := json.Unmarshal(b, &p); err != nil {
			panic(err)
		}
		var gates []string
		if g := os.Getenv("GATES"); g != "" {
			gates = strings.Split(g, ",")
		}
		max := 200
		if len(os.Args) > 3 {
			fmt.Sscanf(os.Args[3], "%d", &max)
		}
		res := execfam.RunPool([]execfam.WorkItem{{Idx: 0, Prog: &p, DFS: max, Snapshot: true, Gates: gates}}, 1, 5*time.Minute)
		var traces []execfam.TraceItem
		for k, r := range res[0].Runs {
			traces = append(traces, execfam.TraceItem{ID: fmt.Sprintf("t%d", k), Prog: 1, Evs: r.Trace})
		}
		fmt.Println("runs", len(res[0].Runs), "exhausted", res[0].Exhausted, "crash", res[0].Crash)
		pv, err := execfam.ValidateProps([]*execfam.Program{&p}, traces)
		if err != nil {
			fmt.Println("ERR", err)
		}
		for _, t := range traces {
			fmt.Println(t.ID, pv.ByTrace[t.ID], execfam.TraceString(t.Evs))
		}
		fmt.Println("tlc wall", pv.Wall, "states", pv.States)
		cfg := "ExecTrace.cfg"
		if os.Getenv("DESIGN") != "" {
			cfg = "ExecTraceDesign.cfg"
		}
		mv := execfam.ValidateModel([]*execfam.Program{&p}, traces, cfg, time.Now().Add(10*time.Minute))
		fmt.Printf("model: accepted %d rejected %v states %d wall %v runs %d err %v\n", mv.Accepted, mv.Rejected, mv.States, mv.Wall, mv.Runs, mv.Err)
		return
	case "dbg-exec":
		b, err := os.ReadFile(os.Args[2])
		if err != nil {
			panic(err)
		}
		var p execfam.Program
		if err := json.Unmarshal(b, &p); err != nil {
			panic(err)
		}
		job := execfam.Job{Prog: &p}
		if len(os.Args) > 3 {
			json.Unmarshal([]byte(os.Args[3]), &job.Prefix)
		}
		fmt.Println(p.Taskfile())
		fmt.Println(p.TLA())
		res := execfam.Run(job, "/dev/shm")
		for _, ev := range res.Trace {
			j, _ := json.Marshal(ev)
			fmt.Println(string(j))
		}
		fmt.Println("taken", res.Taken, "alts", res.Alts, "deadlock", res.Deadlock, "timeout", res.Timeout, "setuperr", res.SetupErr)
		fmt.Println("stderr:", res.Stderr)
	}
}
