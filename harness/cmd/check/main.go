package main

import (
	"fmt"

	"github.com/go-task/task/v3"
)

func main() { fmt.Println(task.MaximumTaskCall) }
