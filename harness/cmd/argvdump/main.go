// argvdump appends its argument vector, as one JSON line, to the file named by $DUMPOUT.
package main

import (
	"encoding/json"
	"os"
)

func main() {
	f, err := os.OpenFile(os.Getenv("DUMPOUT"), os.O_APPEND|os.O_CREATE|os.O_WRONLY, 0o644)
	if err != nil {
		os.Exit(3)
	}
	b, _ := json.Marshal(os.Args[1:])
	f.Write(append(b, '\n'))
	f.Close()
}
