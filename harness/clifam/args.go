// Package clifam: command-line level cases (C19): argument forwarding, quoting, NAME=value, --init.
package clifam

import (
	"bytes"
	"context"
	"encoding/json"
	"fmt"
	"os"
	"os/exec"
	"path/filepath"
	"reflect"
	"runtime"
	"strconv"
	"strings"
	"sync"
	"time"

	"verifharness/rep"
	"verifharness/tlc"
)

var SpecDir = rep.Root + "/specs/cli"
var TaskBin = rep.Root + "/.work/bin/task"
var DumpBin = rep.Root + "/.work/bin/argvdump"

// Alpha: index i (1-based) of the specification's alphabet is Alpha[i-1].
var Alpha = []string{"a", " ", "'", "\"", "$", "\\", "*", "{", "}", "=", "#", "\n", "~", ";", "&", "|", "<", ">", "(", ")", "`"}

func decode(s string) string {
	if s == "" {
		return ""
	}
	var b strings.Builder
	for _, f := range strings.Split(s, ".") {
		i, _ := strconv.Atoi(f)
		if i >= 1 && i <= len(Alpha) {
			b.WriteString(Alpha[i-1])
		}
	}
	return b.String()
}

func decodeArgv(s string) []string {
	if s == "" {
		return nil
	}
	var out []string
	for _, a := range strings.Split(s, "/") {
		out = append(out, decode(a))
	}
	return out
}

type Case struct {
	Kind    string   `json:"kind"`
	Argv    []string `json:"argv,omitempty"`  // argv / quote(value as Argv[0]) / split (whole NAME=value as Argv[0])
	Want    []string `json:"want,omitempty"`  // expected argv at the helper
	InitArg string   `json:"init_arg,omitempty"`
	Exists  bool     `json:"exists,omitempty"`
	Path    string   `json:"path,omitempty"`
	Code    int      `json:"code,omitempty"`
}

func parse(out string) []Case {
	var cs []Case
	for _, ln := range strings.Split(out, "\n") {
		ln = strings.TrimSpace(ln)
		if !strings.HasPrefix(ln, `"CASE|`) {
			continue
		}
		f := strings.Split(strings.Trim(ln, `"`), "|")
		if len(f) != 4 {
			continue
		}
		switch f[1] {
		case "argv":
			cs = append(cs, Case{Kind: "argv", Argv: decodeArgv(f[2]), Want: decodeArgv(f[3])})
		case "quote":
			cs = append(cs, Case{Kind: "quote", Argv: []string{decode(f[2])}, Want: decodeArgv(f[3])})
		case "split":
			nv := strings.SplitN(f[3], "/", 2)
			cs = append(cs, Case{Kind: "split", Argv: []string{decode(f[2])}, Want: []string{decode(nv[1])}, Path: decode(nv[0])})
		case "init":
			a := strings.Split(f[2], "/")
			p := strings.Split(f[3], "/")
			code, _ := strconv.Atoi(p[len(p)-1])
			cs = append(cs, Case{Kind: "init", InitArg: a[0], Exists: a[1] == "TRUE", Path: strings.Join(p[:len(p)-1], "/"), Code: code})
		}
	}
	return cs
}

const taskfile = `version: '3'
silent: true
tasks:
  fwd:
    cmds:
      - '{{.DUMP}} {{.CLI_ARGS}}'
  default:
    cmds:
      - '{{.DUMP}} {{.CLI_ARGS}}'
  quote:
    cmds:
      - '{{.DUMP}} {{shellQuote .X}}'
      - '{{.DUMP}} {{q .X}}'
  split:
    cmds:
      - '{{.DUMP}} {{shellQuote .a}}'
`

type Mismatch struct {
	Sig  string `json:"sig"`
	Case Case   `json:"case"`
	Got  string `json:"got"`
	Cmd  []string `json:"cmd"`
}

func runTask(dir string, env []string, args ...string) (int, string) {
	ctx, cancel := context.WithTimeout(context.Background(), 20*time.Second)
	defer cancel()
	cmd := exec.CommandContext(ctx, TaskBin, args...)
	cmd.Dir = dir
	cmd.Env = append(os.Environ(), env...)
	cmd.Cancel = func() error { return cmd.Process.Kill() }
	var out bytes.Buffer
	cmd.Stdout, cmd.Stderr = &out, &out
	err := cmd.Run()
	code := 0
	if err != nil {
		if ee, ok := err.(*exec.ExitError); ok {
			code = ee.ExitCode()
		} else {
			code = -1
		}
	}
	return code, out.String()
}

func classify(c Case) string {
	s := strings.Join(c.Argv, "")
	switch {
	case strings.Contains(s, "{{") || strings.Contains(s, "}}") || strings.Contains(s, "<no value>"):
		return "template-chars"
	}
	return "plain"
}

func eval(c Case) *Mismatch {
	dir, err := os.MkdirTemp("/dev/shm", "ar")
	if err != nil {
		return nil
	}
	defer os.RemoveAll(dir)
	dump := filepath.Join(dir, "dump.out")
	env := []string{"DUMPOUT=" + dump}
	readDump := func() [][]string {
		b, _ := os.ReadFile(dump)
		var all [][]string
		for _, ln := range strings.Split(strings.TrimSpace(string(b)), "\n") {
			if ln == "" {
				continue
			}
			var a []string
			json.Unmarshal([]byte(ln), &a)
			if a == nil {
				a = []string{}
			}
			all = append(all, a)
		}
		return all
	}
	mm := func(sig, got string, cmd []string) *Mismatch {
		return &Mismatch{Sig: sig + ":" + classify(c), Case: c, Got: got, Cmd: cmd}
	}
	switch c.Kind {
	case "argv", "quote", "split":
		proj := filepath.Join(dir, "p")
		os.MkdirAll(proj, 0o755)
		os.WriteFile(filepath.Join(proj, "Taskfile.yml"), []byte(strings.Replace(taskfile, "tasks:\n", "vars:\n  DUMP: '"+DumpBin+"'\ntasks:\n", 1)), 0o644)
		var args []string
		n := 1
		switch c.Kind {
		case "argv":
			switch len(strings.Join(c.Argv, "")) % 3 {
			case 0: // nothing but "--" before the arguments: they go to the default task
				args = append([]string{"--"}, c.Argv...)
			case 1: // only a flag before "--"
				args = append([]string{"--silent", "--"}, c.Argv...)
			default:
				args = append([]string{"fwd", "DUMP=" + DumpBin, "--"}, c.Argv...)
			}
		case "quote":
			args = []string{"quote", "DUMP=" + DumpBin, "X=" + c.Argv[0]}
			n = 2
		case "split":
			args = []string{"split", "DUMP=" + DumpBin, c.Argv[0]}
		}
		code, out := runTask(proj, env, args...)
		got := readDump()
		if code != 0 {
			return mm(c.Kind+"-failed", fmt.Sprintf("exit %d: %s", code, strings.TrimSpace(out)), args)
		}
		if len(got) != n {
			return mm(c.Kind+"-helper-not-called", fmt.Sprintf("%d dumps: %v", len(got), got), args)
		}
		for _, g := range got {
			want := c.Want
			if want == nil {
				want = []string{}
			}
			if !reflect.DeepEqual(g, want) {
				return mm(c.Kind+"-corrupted", fmt.Sprintf("%q", g), args)
			}
		}
	case "init":
		proj := filepath.Join(dir, "p")
		os.MkdirAll(filepath.Join(proj, "sub"), 0o755)
		target := filepath.Join(proj, c.Path)
		if c.Exists {
			os.WriteFile(target, []byte("# mine\n"), 0o644)
		}
		args := []string{"--init"}
		switch c.InitArg {
		case "dir":
			args = append(args, "sub")
		case "file":
			args = append(args, "custom.yml")
		case "ext":
			args = append(args, ".yaml")
		}
		code, out := runTask(proj, env, args...)
		b, err := os.ReadFile(target)
		if c.Exists {
			if string(b) != "# mine\n" {
				return mm("init-overwrote-existing", string(b), args)
			}
			if code != c.Code {
				return mm("init-status", fmt.Sprintf("exit %d: %s", code, out), args)
			}
		} else {
			if err != nil || !strings.Contains(string(b), "version:") {
				var files []string
				filepath.Walk(proj, func(p string, info os.FileInfo, err error) error {
					if err == nil && !info.IsDir() {
						r, _ := filepath.Rel(proj, p)
						files = append(files, r)
					}
					return nil
				})
				return mm("init-wrong-place", fmt.Sprintf("exit %d, files present: %v", code, files), args)
			}
			if code != 0 {
				return mm("init-status", fmt.Sprintf("exit %d: %s", code, out), args)
			}
		}
	}
	return nil
}

// extra hostile values beyond the enumerated universe
func extras() []Case {
	vals := []string{"a b", "  lead", "trail  ", "$(id)", "`id`", "$HOME", "${X}", "a'b\"c", "\\", "\\n", "*", "~", "#x", "a;b", "a&&b", "a|b", ">out", "<in", "(x)",
		"{{.X}}", "{{", "}}", "<no value>", "{a,b}", "a=b=c", "=", "-x", "--flag", "line1\nline2", "tab\there", "é✓", "a  b   c", "''", "\"\"", "!", "%s", "[x]", "?"}
	var cs []Case
	for _, v := range vals {
		cs = append(cs, Case{Kind: "argv", Argv: []string{v}, Want: []string{v}})
		cs = append(cs, Case{Kind: "argv", Argv: []string{"x", v, "y"}, Want: []string{"x", v, "y"}})
		cs = append(cs, Case{Kind: "quote", Argv: []string{v}, Want: []string{v}})
		cs = append(cs, Case{Kind: "split", Argv: []string{"a=" + v}, Want: []string{v}})
	}
	return cs
}

func Check(tier string) int {
	t0 := time.Now()
	rp := rep.NewReporter("C19")
	kf := rep.LoadFindings()
	mkcfg := func(maxLen, pairLen int, first string, only bool) string {
		return fmt.Sprintf("SPECIFICATION Spec\nCONSTANTS\n  NAlpha = 21\n  EqIdx = 10\n  MaxLen = %d\n  MaxArgs = 2\n  PairLen = %d\n  PairFirst = %s\n  PairsOnly = %v\nCONSTRAINT Emit\nCHECK_DEADLOCK FALSE\n", maxLen, pairLen, first, strings.ToUpper(fmt.Sprint(only)))
	}
	all := "{1,2,3,4,5,6,7,8,9,10,11,12,13,14,15,16,17,18,19,20,21}"
	type job struct{ name, cfg string }
	jobs := []job{{"Gen.cfg", mkcfg(2, 1, all, false)}}
	if tier == "thorough" {
		// the enumeration is sharded: TLC's initial-state generation is super-linear in the number of configurations
		jobs = []job{{"Gen.cfg", mkcfg(3, 1, all, false)}}
		for k := 1; k <= 21; k++ {
			jobs = append(jobs, job{fmt.Sprintf("Gen%d.cfg", k), mkcfg(1, 2, fmt.Sprintf("{%d}", k), true)})
		}
	}
	outs := make([]tlc.Result, len(jobs))
	sem := make(chan struct{}, 4)
	var jw sync.WaitGroup
	for i, j := range jobs {
		jw.Add(1)
		go func(i int, j job) {
			defer jw.Done()
			sem <- struct{}{}
			defer func() { <-sem }()
			outs[i] = tlc.Run(tlc.Opts{SpecDir: SpecDir, Extra: map[string]string{j.name: j.cfg}, Module: "Args", Config: j.name, Workers: 4, Timeout: 20 * time.Minute})
		}(i, j)
	}
	jw.Wait()
	r := tlc.Result{OK: true}
	var allOut strings.Builder
	for _, o := range outs {
		if !o.OK {
			fmt.Println("ERROR: TLC did not complete:", tailS(o.Out, 2000))
			return 2
		}
		r.Distinct += o.Distinct
		allOut.WriteString(o.Out)
	}
	r.Out = allOut.String()
	cases := append(parse(r.Out), extras()...)
	var mu sync.Mutex
	var ms []*Mismatch
	ch := make(chan Case, 64)
	var wg sync.WaitGroup
	for w := 0; w < runtime.NumCPU(); w++ {
		wg.Add(1)
		go func() {
			defer wg.Done()
			for c := range ch {
				if m := eval(c); m != nil {
					mu.Lock()
					ms = append(ms, m)
					mu.Unlock()
				}
			}
		}()
	}
	for _, c := range cases {
		ch <- c
	}
	close(ch)
	wg.Wait()
	seen := map[string]int{}
	for _, m := range ms {
		seen[m.Sig]++
		if seen[m.Sig] > 1 {
			continue
		}
		if f := kf.Open("C19", m.Sig); f != nil {
			rp.KnownFinding(f)
			continue
		}
		// confirm
		if eval(m.Case) == nil {
			rp.Note("NOTE: C19/%s not reproduced", m.Sig)
			continue
		}
		path := rep.WriteReplay("C19", m)
		rp.Note("violation C19/%s: task %q -> %s", m.Sig, m.Cmd, m.Got)
		rp.Violation(path)
	}
	ev := rep.Evidence{PropertyID: "C19", Tier: tier, Seed: rep.Seed(), Level: "model_checking",
		Coverage: map[string]any{"states": r.Distinct, "transitions": r.Distinct, "traces_validated_against_impl": len(cases),
			"samples": []any{map[string]any{"kind": "argv", "argv": []string{"a b", "c$d"}}, map[string]any{"kind": "quote", "value": "`id`"}, map[string]any{"kind": "init", "arg": "dir", "exists": true}},
			"evaluations": len(cases), "distinct_nontrivial": len(cases),
			"rule": "TLC enumerates every argument vector (1 argument up to the length bound, 2 arguments up to the pair bound) over the 21-character hostile alphabet, every value for shellQuote/q, every NAME=value with further '=' in the value, and the --init decision table, with the expected result from Args.tla; each case is one CLI invocation whose helper-recorded argv (or created file) is compared; plus a hand-written list of longer hostile values",
			"mismatch_signatures": seen, "exhaustive": true},
		Assumptions: []string{"argument length <= 2 (quick) / 3 (thorough) over the alphabet; longer values only from the hand-written list", "NUL excluded"},
		WallS: time.Since(t0).Seconds(), Violations: rp.Violations}
	ev.Write()
	fmt.Printf("C19 %s: %d cases (%d TLC states), %d mismatches %v, %d violation(s), %.1fs\n", tier, len(cases), r.Distinct, len(ms), seen, rp.Violations, time.Since(t0).Seconds())
	if rp.Violations > 0 {
		return 1
	}
	return 0
}

func tailS(s string, n int) string {
	if len(s) > n {
		return s[len(s)-n:]
	}
	return s
}
