package clifam

import (
	"bytes"
	"context"
	"fmt"
	"os"
	"os/exec"
	"path/filepath"
	"runtime"
	"strings"
	"time"

	"verifharness/tlaval"
	"verifharness/tlc"
)

type exitScenario struct {
	files map[string]string
	args  []string
	stdin string
}

const v3 = "version: '3'\nsilent: true\n"

func exitScenarios() map[string]exitScenario {
	one := func(body string, args ...string) exitScenario {
		return exitScenario{files: map[string]string{"Taskfile.yml": v3 + body}, args: args}
	}
	return map[string]exitScenario{
		"ok":               one("tasks:\n  t:\n    cmds: ['true']\n", "t"),
		"no-taskfile":      {files: map[string]string{"README": "x"}, args: []string{"t"}},
		"bad-yaml":         {files: map[string]string{"Taskfile.yml": "version: '3'\ntasks: [\n"}, args: []string{"t"}},
		"bad-shape":        {files: map[string]string{"Taskfile.yml": "version: '3'\ntasks:\n  t:\n    cmds: {a: b}\n"}, args: []string{"t"}},
		"no-version":       {files: map[string]string{"Taskfile.yml": "tasks:\n  t:\n    cmds: ['true']\n"}, args: []string{"t"}},
		"version-too-high": {files: map[string]string{"Taskfile.yml": "version: '4'\ntasks:\n  t:\n    cmds: ['true']\n"}, args: []string{"t"}},
		"missing-include":  one("includes:\n  i: ./nowhere\ntasks:\n  t:\n    cmds: ['true']\n", "t"),
		"include-cycle": {files: map[string]string{"Taskfile.yml": v3 + "includes:\n  a: ./a.yml\ntasks:\n  t:\n    cmds: ['true']\n",
			"a.yml": v3 + "includes:\n  r: ./Taskfile.yml\ntasks:\n  u:\n    cmds: ['true']\n"}, args: []string{"t"}},
		"task-not-found":      one("tasks:\n  t:\n    cmds: ['true']\n", "zzzzzz"),
		"cmd-fails-7":         one("tasks:\n  t:\n    cmds: ['exit 7']\n", "t"),
		"dep-cmd-fails-7":     one("tasks:\n  t:\n    deps: [d]\n    cmds: ['true']\n  d:\n    cmds: ['exit 7']\n", "t"),
		"called-cmd-fails-7":  one("tasks:\n  t:\n    cmds:\n      - task: d\n  d:\n    cmds: ['exit 7']\n", "t"),
		"ignored-cmd-fails-7": one("tasks:\n  t:\n    cmds:\n      - cmd: exit 7\n        ignore_error: true\n", "t"),
		"dry-cmd-fails-7":     one("tasks:\n  t:\n    cmds: ['exit 7']\n", "t", "--dry"),
		"precondition":        one("tasks:\n  t:\n    preconditions: ['false']\n    cmds: ['true']\n", "t"),
		"internal":            one("tasks:\n  t:\n    internal: true\n    cmds: ['true']\n", "t"),
		"ambiguous-alias":     one("tasks:\n  t:\n    aliases: [x]\n    cmds: ['true']\n  u:\n    aliases: [x]\n    cmds: ['true']\n", "x"),
		"task-cycle":          one("tasks:\n  t:\n    cmds:\n      - task: u\n  u:\n    cmds:\n      - task: t\n", "t"),
		"dep-cycle":           one("tasks:\n  t:\n    deps: [u]\n  u:\n    deps: [t]\n", "t"),
		"prompt-declined":     {files: map[string]string{"Taskfile.yml": v3 + "tasks:\n  t:\n    prompt: 'go?'\n    cmds: ['true']\n"}, args: []string{"t"}, stdin: "n\n"},
		"required-var":        one("tasks:\n  t:\n    requires: {vars: [NEEDED]}\n    cmds: ['true']\n", "t"),
		"enum-var":            one("tasks:\n  t:\n    requires: {vars: [{name: V, enum: [a, b]}]}\n    cmds: ['true']\n", "t", "V=c"),
		"status-stale":        one("tasks:\n  t:\n    status: ['false']\n    cmds: ['true']\n", "t", "--status"),
		"status-fresh":        one("tasks:\n  t:\n    status: ['true']\n    cmds: ['true']\n", "t", "--status"),
		"unknown-flag":        one("tasks:\n  t:\n    cmds: ['true']\n", "t", "--no-such-flag"),
	}
}

// GrowExitCodes: the ExitCodes.tla cases against the CLI (specification growth beyond the listed properties).
func GrowExitCodes() int {
	t0 := time.Now()
	r := tlc.Run(tlc.Opts{SpecDir: SpecDir, Module: "ExitCodes", Config: "ExitCodes.cfg", Workers: runtime.NumCPU(), Timeout: 5 * time.Minute})
	if !r.OK {
		fmt.Println("ERROR: TLC did not complete:", tailS(r.Out, 2000))
		return 2
	}
	bin := TaskBin
	if b := os.Getenv("VERIF_TASKBIN"); b != "" {
		bin = b
	}
	scs := exitScenarios()
	n, bad := 0, 0
	for _, ln := range strings.Split(r.Out, "\n") {
		ln = strings.TrimSpace(ln)
		if !strings.HasPrefix(ln, `"CASE|`) {
			continue
		}
		v, err := tlaval.Parse(strings.TrimPrefix(tlaval.Unquote(ln), "CASE|"))
		if err != nil {
			fmt.Println("ERROR:", err)
			return 2
		}
		m := tlaval.Rec(v)
		cfg := tlaval.Rec(m["cfg"])
		kind, x, want := tlaval.Str(cfg["kind"]), tlaval.Bool(cfg["x"]), tlaval.Int(m["exp"])
		sc, ok := scs[kind]
		if !ok {
			fmt.Println("ERROR: no driver for scenario", kind)
			return 2
		}
		n++
		tmp, err := os.MkdirTemp("/dev/shm", "xc")
		if err != nil {
			fmt.Println("ERROR:", err)
			return 2
		}
		for name, content := range sc.files {
			os.WriteFile(filepath.Join(tmp, name), []byte(content), 0o644)
		}
		args := append([]string{}, sc.args...)
		if x {
			args = append(args, "--exit-code")
		}
		ctx, cancel := context.WithTimeout(context.Background(), 20*time.Second)
		cmd := exec.CommandContext(ctx, bin, args...)
		cmd.Dir = tmp
		cmd.Env = append(os.Environ(), "NO_COLOR=1")
		cmd.Stdin = strings.NewReader(sc.stdin)
		cmd.Cancel = func() error { return cmd.Process.Kill() }
		var out bytes.Buffer
		cmd.Stdout, cmd.Stderr = &out, &out
		err = cmd.Run()
		cancel()
		code := 0
		if ee, ok := err.(*exec.ExitError); ok {
			code = ee.ExitCode()
		} else if err != nil {
			code = -1
		}
		if code != want {
			bad++
			fmt.Printf("disagreement: %s (--exit-code=%v): specification %d, CLI %d: %s\n", kind, x, want, code, strings.TrimSpace(tailS(out.String(), 300)))
		}
		os.RemoveAll(tmp)
	}
	fmt.Printf("grow-exitcodes: %d scenarios from ExitCodes.tla against the CLI, %d disagree, %.1fs\n", n, bad, time.Since(t0).Seconds())
	if bad > 0 {
		return 1
	}
	return 0
}
