package fpfam

import (
	"encoding/json"
	"fmt"
	"math/rand"
	"os"
	"runtime"
	"strings"
	"time"

	"verifharness/rep"
	"verifharness/tlc"
)

type bundle struct {
	Property  string  `json:"property"`
	Sig       string  `json:"sig"`
	History   History `json:"history"`
	Taskfile  string  `json:"taskfile"`
	Pretty    string  `json:"pretty"`
	Confirmed bool    `json:"confirmed_by_reexecution"`
	Repro     string  `json:"reproduce"`
}

func reexec(h History, prop, sig string) bool {
	h2 := History{ID: "re", Cfg: h.Cfg}
	for _, s := range h.Steps {
		h2.Steps = append(h2.Steps, Step{Op: s.Op, F: s.F, G: s.G, Mode: s.Mode})
	}
	if err := Execute(&h2); err != nil {
		return false
	}
	vs, _, err := Evaluate([]History{h2})
	if err != nil {
		return false
	}
	for _, v := range vs["re"].Viols {
		if v.Prop == prop && v.Sig == sig {
			return true
		}
	}
	return false
}

func Check(prop, tier string) int {
	t0 := time.Now()
	seed := rep.Seed()
	rp := rep.NewReporter(prop)
	kf := rep.LoadFindings()
	OpenKFs = kf.OpenKFsOf("fp")
	workers := runtime.NumCPU()

	maxClock, nRandom, maxLen, stride := 5, 120, 8, 7
	if tier == "thorough" {
		maxClock, nRandom, maxLen, stride = 6, 3000, 14, 1
	}
	// ---- the design satisfies C04/C05/C12 for every history up to the depth bound
	cfgText := fmt.Sprintf("SPECIFICATION Spec\nCONSTANTS\n  KF <- KFNone\n  MaxClock = %d\nINVARIANT Inv_NoViolation\nCONSTRAINT Depth\nVIEW MCView\nCHECK_DEADLOCK FALSE\n", maxClock)
	mc := tlc.Run(tlc.Opts{SpecDir: SpecDir, Extra: map[string]string{"FpData.tla": DataModule(nil), "FpMCGen.cfg": cfgText},
		Module: "FingerprintMC", Config: "FpMCGen.cfg", Workers: workers, Timeout: 12 * time.Minute})
	if !mc.OK && !mc.TimedOut {
		fmt.Println(tail(mc.Out, 5000))
		fmt.Printf("ERROR: TLC reports %q on the DESIGN model of the fingerprint machinery (model-level, exit 2)\n", mc.Violation)
		return 2
	}

	// ---- histories
	sys := Systematic()
	var hs []History
	for i, h := range sys {
		if stride == 1 || (i+int(seed))%stride == 0 {
			hs = append(hs, h)
		}
	}
	hs = append(hs, Core()...)
	r := rand.New(rand.NewSource(seed*31337 + 11))
	hs = append(hs, Random(r, nRandom, maxLen)...)
	for i := range hs {
		hs[i].ID = fmt.Sprintf("h%d", i)
	}
	errs := ExecuteAll(hs, workers)
	var good []History
	nerr := 0
	for i, e := range errs {
		if e != nil {
			nerr++
			if nerr < 5 {
				fmt.Printf("ERROR: history %s: %v\n", hs[i].ID, e)
			}
			continue
		}
		good = append(good, hs[i])
	}
	if len(good) == 0 {
		fmt.Println("ERROR: no history could be executed (exit 2)")
		return 2
	}
	verdicts, tstates, err := Evaluate(good)
	if err != nil {
		fmt.Println("ERROR:", err)
		return 2
	}
	seen := map[string]int{}
	nontriv := map[string]bool{}
	drift := 0
	var samples []any
	for _, h := range good {
		v := verdicts[h.ID]
		if v.Drift != "" {
			drift++
			if drift <= 5 {
				rp.Note("NONCONFORMANCE: the Fingerprint model predicts otherwise for %s: %s", Pretty(h), v.Drift)
			}
		}
		if isNontrivial(prop, h) {
			nontriv[Pretty(h)] = true
			if len(samples) < 4 {
				samples = append(samples, Pretty(h))
			}
		}
		for _, x := range v.Viols {
			if x.Prop != prop {
				continue
			}
			seen[x.Sig]++
			if seen[x.Sig] > 1 {
				continue
			}
			if f := kf.Open(prop, x.Sig); f != nil {
				rp.KnownFinding(f)
				continue
			}
			b := bundle{Property: prop, Sig: x.Sig, History: h, Taskfile: taskfile(h.Cfg), Pretty: Pretty(h)}
			for n := 0; n < 3 && !b.Confirmed; n++ {
				b.Confirmed = reexec(h, prop, x.Sig)
			}
			path := rep.WriteReplay(prop, b)
			if b.Confirmed {
				rp.Note("violation %s/%s: %s", prop, x.Sig, Pretty(h))
				rp.Violation(path)
			} else {
				rp.Note("NOTE: %s/%s seen once but not reproduced (%s)", prop, x.Sig, path)
			}
		}
	}
	if len(samples) == 0 {
		samples = append(samples, Pretty(good[0]))
	}
	ev := rep.Evidence{PropertyID: prop, Tier: tier, Seed: seed, Level: "model_checking",
		Coverage: map[string]any{
			"states": mc.Distinct, "transitions": mc.Generated, "traces_validated_against_impl": len(good), "samples": samples,
			"evaluations": len(good), "distinct_nontrivial": len(nontriv),
			"rule": "histories: grammar [run];[file-op];X;[file-op];run over all 13 invocation modes, 11 file operations and 14 task configurations (both methods, +-generates, +-status, +-prompt, colliding names) sampled with stride " + fmt.Sprint(stride) + ", hand-written core histories, seeded random histories; each is run against the task CLI and the observed outcomes are judged by TLC with the FpProps monitor; non-trivial = contains the kind of step the property is about (C04: a non-successful or read-only step before a run; C05: a file operation between runs; C12: a read-only invocation)",
			"mc_depth_clock": maxClock, "mc_ok": mc.OK, "mc_timed_out": mc.TimedOut,
			"histories_systematic_total": len(sys), "histories_run": len(hs), "harness_errors": nerr,
			"model_drift_histories": drift, "trace_eval_states": tstates, "violation_signatures": seen, "exhaustive": false,
		},
		Assumptions: []string{"crash points are command boundaries (SIGKILL issued by the body itself)", "one source directory, files a/b matched and x excluded, two contents per file",
			"timestamp histories are separated by 12 ms sleeps so that file system timestamps are strictly ordered", "no terminal: a prompt without --yes is declined by Task itself (exit 205)"},
		WallS: time.Since(t0).Seconds(), Violations: rp.Violations}
	if err := ev.Write(); err != nil {
		fmt.Println("ERROR:", err)
		return 2
	}
	fmt.Printf("%s %s: MC %d distinct states (ok=%v), %d histories run (%d non-trivial), %d drift, %d violation(s), %.1fs\n",
		prop, tier, mc.Distinct, mc.OK, len(good), len(nontriv), drift, rp.Violations, time.Since(t0).Seconds())
	if rp.Violations > 0 {
		return 1
	}
	return 0
}

func isNontrivial(prop string, h History) bool {
	ro := map[string]bool{"dryforce": true, "dryfailpre": true, "drydir": true, "dry": true, "status": true, "list": true, "listjson": true, "summary": true}
	for i, s := range h.Steps {
		switch prop {
		case "C12":
			if s.Op == "inv" && ro[s.Mode] {
				return true
			}
		case "C05":
			if s.Op != "inv" && i > 0 {
				return true
			}
		case "C04":
			if s.Op == "inv" && s.Mode != "run" && i < len(h.Steps)-1 {
				return true
			}
		}
	}
	return false
}

func tail(s string, n int) string {
	if len(s) > n {
		return s[len(s)-n:]
	}
	return s
}

// Core histories: the scenarios the properties name explicitly.
func Core() []History {
	var hs []History
	add := func(c Cfg, steps ...Step) {
		if st, ok := valid(c, steps); ok {
			hs = append(hs, History{Cfg: c, Steps: st})
		}
	}
	for _, m := range []string{"checksum", "timestamp"} {
		c := Cfg{Method: m, Gen: true}
		add(c, inv("run"), inv("run"), Step{Op: "edit", F: "a"}, inv("fail2"), inv("run"), inv("run"))
		add(c, inv("run"), Step{Op: "edit", F: "a"}, inv("kill1"), inv("run"))
		add(c, inv("run"), Step{Op: "edit", F: "a"}, inv("listjson"), inv("run"))
		add(c, inv("run"), Step{Op: "edit", F: "a"}, inv("dry"), inv("status"), inv("run"))
		add(c, inv("run"), Step{Op: "rmgen"}, inv("run"), inv("run"))
		add(c, inv("run"), Step{Op: "add", F: "b"}, inv("run"), Step{Op: "rm", F: "b"}, inv("run"))
		add(c, inv("run"), Step{Op: "addold", F: "b"}, inv("run"))
		add(c, inv("run"), Step{Op: "ren", F: "a", G: "b"}, inv("run"))
		add(c, inv("run"), Step{Op: "touch", F: "a"}, inv("run"))
		add(c, inv("run"), Step{Op: "edit", F: "x"}, inv("run"))
		add(c, inv("other"), inv("run"), Step{Op: "edit", F: "a"}, inv("other"), inv("run"))
		add(Cfg{Method: m, Prompt: true}, inv("prompt"), inv("run"), inv("run"))
		add(Cfg{Method: m, Prompt: true}, inv("run"), Step{Op: "edit", F: "a"}, inv("prompt"), inv("run"))
		add(Cfg{Method: m, Collide: true}, inv("other"), inv("run"))
		add(Cfg{Method: m, Status: true}, inv("run"), Step{Op: "flip"}, inv("run"), Step{Op: "flip"}, inv("run"))
	}
	return hs
}

func Replay(path string) int {
	b, err := os.ReadFile(path)
	if err != nil {
		fmt.Println("ERROR:", err)
		return 2
	}
	var bd bundle
	if err := json.Unmarshal(b, &bd); err != nil {
		fmt.Println("ERROR:", err)
		return 2
	}
	OpenKFs = rep.LoadFindings().OpenKFsOf("fp")
	for n := 0; n < 3; n++ {
		if reexec(bd.History, bd.Property, bd.Sig) {
			fmt.Printf("VIOLATION property=%s replay=%s\n", bd.Property, path)
			return 1
		}
	}
	fmt.Println("not reproduced:", strings.TrimSpace(bd.Pretty))
	return 0
}
