package fpfam

import (
	"fmt"

	"verifharness/rep"
)

// SelfTest: a real history (run ; edit(a) ; run ; dry ; run) is clean for the monitor and predicted by the model;
// corruptions of what was observed are flagged (monitor) or reported as drift (model).
func SelfTest() int {
	kf := rep.LoadFindings()
	OpenKFs = kf.OpenKFsOf("fp")
	base := History{ID: "g", Cfg: Cfg{Method: "checksum", Gen: true},
		Steps: []Step{inv("run"), {Op: "edit", F: "a"}, inv("run"), inv("dry"), inv("run")}}
	if err := Execute(&base); err != nil {
		fmt.Println("ERROR:", err)
		return 2
	}
	cp := func(id string) History {
		h := base
		h.ID = id
		h.Steps = append([]Step(nil), base.Steps...)
		return h
	}
	hs := []History{base}
	names := []string{"genuine history"}
	{
		h := cp("c1") // the run after the edit is reported as skipped
		h.Steps[2].Ran, h.Steps[2].Diff = nil, false
		hs, names = append(hs, h), append(names, "the run after edit(a) skipped the task")
	}
	{
		h := cp("c2") // the last run (nothing changed) ran again
		h.Steps[4].Ran, h.Steps[4].Diff = []int{1, 2}, true
		hs, names = append(hs, h), append(names, "the run after the dry run executed again")
	}
	{
		h := cp("c3") // the dry run changed files
		h.Steps[3].Diff = true
		hs, names = append(hs, h), append(names, "the dry run changed the directory")
	}
	{
		h := cp("c4") // the first run failed but the second skipped
		h.Steps[0].Exit = 201
		h.Steps[0].Ran = []int{1}
		h.Steps[1] = Step{Op: "touch", F: "a"}
		h.Steps[2].Ran, h.Steps[2].Diff = nil, false
		hs, names = append(hs, h), append(names, "a run after a failed attempt skipped the task")
	}
	vs, _, err := Evaluate(hs)
	if err != nil {
		fmt.Println("ERROR:", err)
		return 2
	}
	ok := true
	for k, h := range hs {
		v := vs[h.ID]
		flagged, drift := len(v.Viols) > 0, v.Drift != ""
		fmt.Printf("selftest fp    %-55s monitor: %-8s model: %s\n", names[k]+":", map[bool]string{true: "FLAGGED", false: "clean"}[flagged], map[bool]string{true: "DRIFT", false: "as predicted"}[drift])
		if k == 0 && (flagged || drift) || k > 0 && !flagged && !drift {
			ok = false
		}
	}
	if !ok {
		fmt.Println("ERROR: the binding self-test failed")
		return 2
	}
	return 0
}
