// Package fpfam: histories of file operations and Task invocations against the real CLI,
// evaluated by TLC with the FpProps monitor and compared with the Fingerprint model (C04 C05 C12).
package fpfam

import (
	"bytes"
	"context"
	"crypto/sha256"
	"fmt"
	"io/fs"
	"math/rand"
	"os"
	"os/exec"
	"path/filepath"
	"regexp"
	"runtime"
	"sort"
	"strconv"
	"strings"
	"sync"
	"syscall"
	"time"

	"verifharness/rep"
	"verifharness/tlc"
)

var SpecDir = rep.Root + "/specs/fp"
var TaskBin = rep.Root + "/.work/bin/task"

type Cfg struct {
	Method  string `json:"method"`
	Gen     bool   `json:"gen"`
	Status  bool   `json:"status"`
	Prompt  bool   `json:"prompt"`
	Collide bool   `json:"collide"`
	Reinc   bool   `json:"reinc"`
	Label   bool   `json:"label"` // both tasks carry the same label: (the state file is named after the label)
	// Pat: how the same set of sources {a, b, (x)} is written down. "" '*.txt' ; brace '{a,b,x}.txt' ; list one entry
	// per file ; sub 'sub/*.txt' (files in a sub-directory) ; rec '**/*.txt' (files in a sub-directory).
	// A rendering variant: the specification talks about the set of files, not about its spelling.
	Pat string `json:"pat,omitempty"`
	// Big: the source files are larger than any read buffer (160 KiB of padding, the distinguishing byte at the end)
	Big bool `json:"big,omitempty"`
	// NoDesc: the tasks have no description and there is a default task: --list has nothing to list (and must not
	// do anything else)
	NoDesc bool `json:"nodesc,omitempty"`
}

var padding = strings.Repeat("0123456789abcde\n", 10240)

func (c Cfg) content(v string) []byte {
	if c.Big {
		return []byte(padding + v + "\n")
	}
	return []byte(v + "\n")
}

var readOnlyMode = map[string]bool{"dry": true, "status": true, "list": true, "listjson": true, "summary": true, "drydir": true, "dryfailpre": true, "dryforce": true}

var pats = []string{"", "brace", "list", "sub", "rec", "twin"}

func (c Cfg) fileOf(f string) string {
	if c.Pat == "rec" {
		return filepath.Join("sub", "deep", f+".txt") // matched by ** two levels down
	}
	if c.Pat == "sub" {
		return filepath.Join("sub", f+".txt")
	}
	if c.Pat == "twin" {
		return filepath.Join("tw1", f+".txt")
	}
	return f + ".txt"
}

// twinOf: with the "twin" spelling every source file exists twice, with the same base name and always the same
// content, in two directories matched by the same pattern; the driver applies every file operation to both copies.
func (c Cfg) twinOf(f string) string {
	if c.Pat == "twin" {
		return filepath.Join("tw2", f+".txt")
	}
	return ""
}

// sourcesYAML renders the sources: list of the fingerprinted tasks.
func (c Cfg) sourcesYAML() string {
	var b strings.Builder
	b.WriteString("    sources:\n")
	ex := "x.txt"
	switch c.Pat {
	case "brace":
		b.WriteString("      - '{a,b,x}.txt'\n")
	case "list":
		b.WriteString("      - 'a.txt'\n      - b.txt\n      - './x.txt'\n")
	case "sub":
		b.WriteString("      - 'sub/*.txt'\n")
		ex = "sub/x.txt"
	case "rec", "twin":
		b.WriteString("      - '**/*.txt'\n")
		ex = "**/x.txt"
	default:
		b.WriteString("      - '*.txt'\n")
	}
	fmt.Fprintf(&b, "      - exclude: '%s'\n", ex)
	if c.Reinc {
		fmt.Fprintf(&b, "      - '%s'\n", c.fileOf("x"))
		if tw := c.twinOf("x"); tw != "" {
			fmt.Fprintf(&b, "      - '%s'\n", tw)
		}
	}
	return b.String()
}

type Step struct {
	Op   string `json:"op"` // edit touch add addold rm ren rmgen flip inv
	F    string `json:"f,omitempty"`
	G    string `json:"g,omitempty"`
	Mode string `json:"mode,omitempty"`
	Ran  []int  `json:"ran"`
	Exit int    `json:"exit"`
	Diff bool   `json:"diff"`
	Out  string `json:"out,omitempty"`
}

type History struct {
	ID    string `json:"id"`
	Cfg   Cfg    `json:"cfg"`
	Steps []Step `json:"steps"`
}

func b2s(b bool) string {
	if b {
		return "TRUE"
	}
	return "FALSE"
}

func (c Cfg) tla() string {
	return fmt.Sprintf(`[method |-> "%s", gen |-> %s, status |-> %s, prompt |-> %s, collide |-> %s, reinc |-> %s]`, c.Method, b2s(c.Gen), b2s(c.Status), b2s(c.Prompt), b2s(c.Collide || c.Label), b2s(c.Reinc))
}

func (s Step) tla() string {
	if s.Op == "inv" {
		r := make([]string, len(s.Ran))
		for i, x := range s.Ran {
			r[i] = strconv.Itoa(x)
		}
		return fmt.Sprintf(`[op |-> "inv", mode |-> "%s", ran |-> <<%s>>, exit |-> %d, diff |-> %s]`, s.Mode, strings.Join(r, ", "), s.Exit, b2s(s.Diff))
	}
	return fmt.Sprintf(`[op |-> "%s", f |-> "%s", g |-> "%s"]`, s.Op, s.F, s.G)
}

var OpenKFs []string

func DataModule(hs []History) string {
	var b strings.Builder
	b.WriteString("---- MODULE FpData ----\n")
	q := make([]string, len(OpenKFs))
	for i, k := range OpenKFs {
		q[i] = `"` + k + `"`
	}
	b.WriteString("KFOpen == {" + strings.Join(q, ", ") + "}\n")
	b.WriteString("Histories == <<\n")
	for i, h := range hs {
		if i > 0 {
			b.WriteString(",\n")
		}
		st := make([]string, len(h.Steps))
		for k, s := range h.Steps {
			st[k] = s.tla()
		}
		fmt.Fprintf(&b, `  [id |-> "%s", cfg |-> %s, steps |-> <<%s>>]`, h.ID, h.Cfg.tla(), strings.Join(st, ", "))
	}
	b.WriteString("\n>>\n====\n")
	return b.String()
}

// ---------- materialising a history on disk and running the CLI ----------

func names(c Cfg) (string, string) {
	if c.Collide {
		return "a:b", "a-b"
	}
	return "t", "u"
}

func taskfile(c Cfg) string {
	var b strings.Builder
	b.WriteString("version: '3'\nsilent: true\ntasks:\n")
	t, u := names(c)
	for _, n := range []string{t, u} {
		desc := fmt.Sprintf("    desc: task %s\n", n)
		if c.NoDesc {
			desc = ""
		}
		fmt.Fprintf(&b, "  '%s':\n%s    method: %s\n%s", n, desc, c.Method, c.sourcesYAML())
		if c.Gen {
			// two entries, the second a brace pattern: every generated file has to exist, not just one of them
			b.WriteString("    generates: [out.gen, 'extra{1,2}.gen']\n")
		}
		if c.Status {
			// two status commands: the first is the one the driver controls, the last always passes
			b.WriteString("    status:\n      - test ! -f \"$CTL/statfail\"\n      - 'true'\n")
		}
		if c.Prompt {
			b.WriteString("    prompt: 'go?'\n")
		}
		if c.Label {
			b.WriteString("    label: 'same label'\n")
		}
		// markers 1 and 2 are the body the specification speaks of; 9 (a deferred command) and 7 (a command
		// in a loop) only matter in the read-only modes, where nothing at all may run
		b.WriteString("    cmds:\n      - defer: echo 9 >> \"$TRACE\"\n      - echo 1 >> \"$TRACE\"\n      - for: [x, y]\n        cmd: echo 7 >> \"$TRACE\"\n      - task: pre\n      - test ! -f \"$CTL/cancelsib\" || { touch \"$CTL/started\"; sleep 3; }\n      - test ! -f \"$CTL/fail1\"\n      - test ! -f \"$CTL/kill1\" || sh -c 'kill -KILL $PPID'\n")
		if c.Gen {
			b.WriteString("      - touch out.gen extra1.gen extra2.gen\n")
		}
		b.WriteString("      - echo 2 >> \"$TRACE\"\n      - test ! -f \"$CTL/fail2\"\n      - test ! -f \"$CTL/kill2\" || sh -c 'kill -KILL $PPID'\n")
	}
	if c.NoDesc {
		fmt.Fprintf(&b, "  default:\n    deps: ['%s']\n", t)
	}
	fmt.Fprintf(&b, "  wrapdep:\n    deps: ['%s']\n", t)
	fmt.Fprintf(&b, "  retry:\n    ignore_error: true\n    cmds:\n      - task: '%s'\n      - task: '%s'\n", t, t)
	fmt.Fprintf(&b, "  wrap:\n    deps: ['%s', sib]\n  sib:\n    cmds:\n      - for i in $(seq 1 60); do test -f \"$CTL/started\" && break; sleep 0.05; done; exit 1\n", t)
	b.WriteString("  pre:\n    preconditions:\n      - test ! -f \"$CTL/failpre\"\n")
	b.WriteString("  d:\n    dir: ./newdir\n    status: ['test -f nope']\n    cmds:\n      - echo 3 >> \"$TRACE\"\n")
	return b.String()
}

func snapshot(dir string) string {
	var lines []string
	filepath.WalkDir(dir, func(p string, d fs.DirEntry, err error) error {
		if err != nil {
			return nil
		}
		info, err := d.Info()
		if err != nil {
			return nil
		}
		rel, _ := filepath.Rel(dir, p)
		if d.IsDir() {
			lines = append(lines, "d "+rel)
			return nil
		}
		b, _ := os.ReadFile(p)
		lines = append(lines, fmt.Sprintf("f %s %d %x %d", rel, info.Size(), sha256.Sum256(b), info.ModTime().UnixNano()))
		return nil
	})
	sort.Strings(lines)
	return strings.Join(lines, "\n")
}


// Execute runs the history against the CLI and fills in the observations.
func Execute(h *History) error {
	base, err := os.MkdirTemp("/dev/shm", "fp")
	if err != nil {
		return err
	}
	defer os.RemoveAll(base)
	proj, ctl, trace := filepath.Join(base, "proj"), filepath.Join(base, "ctl"), filepath.Join(base, "trace")
	os.MkdirAll(filepath.Join(proj, "sub", "deep"), 0o755)
	os.MkdirAll(filepath.Join(proj, "tw1"), 0o755)
	os.MkdirAll(filepath.Join(proj, "tw2"), 0o755)
	os.MkdirAll(ctl, 0o755)
	os.WriteFile(trace, nil, 0o644)
	os.WriteFile(filepath.Join(proj, "Taskfile.yml"), []byte(taskfile(h.Cfg)), 0o644)
	old := time.Now().Add(-time.Hour)
	for _, f := range []string{"a", "x"} {
		for _, rel := range []string{h.Cfg.fileOf(f), h.Cfg.twinOf(f)} {
			if rel == "" {
				continue
			}
			p := filepath.Join(proj, rel)
			os.WriteFile(p, h.Cfg.content("1"), 0o644)
			os.Chtimes(p, old, old)
		}
	}
	tick := func() {
		if h.Cfg.Method == "timestamp" {
			time.Sleep(12 * time.Millisecond)
		}
	}
	t, u := names(h.Cfg)
	traceLen := 0
	for i := range h.Steps {
		s := &h.Steps[i]
		tick()
		for _, cp := range []func(string) string{h.Cfg.fileOf, h.Cfg.twinOf} {
			if s.Op == "inv" || s.Op == "rmgen" || s.Op == "flip" || cp(s.F) == "" {
				continue
			}
			p := filepath.Join(proj, cp(s.F))
			switch s.Op {
			case "edit":
				b, _ := os.ReadFile(p)
				nb := "2"
				if strings.HasSuffix(strings.TrimSpace(string(b)), "2") {
					nb = "1"
				}
				os.WriteFile(p, h.Cfg.content(nb), 0o644)
			case "touch":
				now := time.Now()
				os.Chtimes(p, now, now)
			case "add":
				os.WriteFile(p, h.Cfg.content("1"), 0o644)
			case "addold":
				os.WriteFile(p, h.Cfg.content("1"), 0o644)
				o := time.Now().Add(-2 * time.Hour)
				os.Chtimes(p, o, o)
			case "rm":
				os.Remove(p)
			case "ren":
				os.Rename(p, filepath.Join(proj, cp(s.G)))
			}
		}
		switch s.Op {
		case "rmgen":
			os.Remove(filepath.Join(proj, "out.gen"))
		case "flip":
			sf := filepath.Join(ctl, "statfail")
			if _, err := os.Stat(sf); err == nil {
				os.Remove(sf)
			} else {
				os.WriteFile(sf, nil, 0o644)
			}
		case "inv":
			var args []string
			yes := h.Cfg.Prompt
			ctlFile := ""
			switch s.Mode {
			case "run":
				args = []string{t}
			case "other":
				args = []string{u}
			case "fail1", "fail2", "failpre", "kill1", "kill2":
				args = []string{t}
				ctlFile = filepath.Join(ctl, s.Mode)
			case "cancelsib":
				args = []string{"wrap"}
				ctlFile = filepath.Join(ctl, s.Mode)
			case "depfail1":
				args = []string{"wrapdep"}
				ctlFile = filepath.Join(ctl, "fail1")
			case "forcefail1":
				args = []string{t, "--force"}
				ctlFile = filepath.Join(ctl, "fail1")
			case "retryfail1":
				args = []string{"retry"}
				ctlFile = filepath.Join(ctl, "fail1")
			case "prompt":
				args = []string{t}
				yes = false
			case "force":
				args = []string{t, "--force"}
			case "dry":
				args = []string{t, "--dry"}
			case "dryforce":
				args = []string{t, "--dry", "--force"}
			case "dryfailpre":
				args = []string{t, "--dry"}
				ctlFile = filepath.Join(ctl, "failpre")
			case "status":
				args = []string{t, "--status"}
			case "list": // --list-all and --list (every task has a description) alternate: the specification says "a listing"
				args = []string{"--list-all"}
				if (i+len(h.Steps))%2 == 1 || h.Cfg.NoDesc {
					args = []string{"--list"}
				}
				yes = false
			case "listjson":
				args = []string{"--list-all", "--json"}
				if (i+len(h.Steps))%2 == 1 {
					args = []string{"--list", "--json"}
				}
				yes = false
			case "summary":
				args = []string{t, "--summary"}
			case "drydir":
				args = []string{"d", "--dry"}
				yes = false
			}
			if yes {
				args = append(args, "--yes")
			}
			if ctlFile != "" {
				os.WriteFile(ctlFile, nil, 0o644)
			}
			before := snapshot(proj)
			ctx, cancel := context.WithTimeout(context.Background(), 20*time.Second)
			cmd := exec.CommandContext(ctx, TaskBin, args...)
			cmd.Dir = proj
			cmd.Env = append(os.Environ(), "TRACE="+trace, "CTL="+ctl, "NO_COLOR=1")
			cmd.Cancel = func() error { return cmd.Process.Kill() }
			var out bytes.Buffer
			cmd.Stdout, cmd.Stderr = &out, &out
			err := cmd.Run()
			timedOut := ctx.Err() != nil
			cancel()
			s.Exit = 0
			if err != nil {
				if ee, ok := err.(*exec.ExitError); ok {
					if ws, ok := ee.Sys().(syscall.WaitStatus); ok && ws.Signaled() {
						s.Exit = 128 + int(ws.Signal())
					} else {
						s.Exit = ee.ExitCode()
					}
				} else {
					return fmt.Errorf("running task: %v", err)
				}
			}
			if timedOut {
				return fmt.Errorf("task %v timed out", args)
			}
			if h.Cfg.NoDesc && (s.Mode == "list" || s.Mode == "listjson") && s.Exit == 1 && len(args) > 0 && args[0] == "--list" {
				// "nothing to list" is the documented outcome of --list when no task has a description
				s.Exit = 0
			}
			after := snapshot(proj)
			s.Diff = before != after
			if ctlFile != "" {
				os.Remove(ctlFile)
			}
			os.Remove(filepath.Join(ctl, "started"))
			tb, _ := os.ReadFile(trace)
			s.Ran = []int{}
			for _, ln := range strings.Fields(string(tb[traceLen:])) {
				n, _ := strconv.Atoi(ln)
				if (n == 7 || n == 9) && !readOnlyMode[s.Mode] {
					continue
				}
				s.Ran = append(s.Ran, n)
			}
			traceLen = len(tb)
			s.Out = out.String()
			if len(s.Out) > 300 {
				s.Out = s.Out[:300]
			}
		}
	}
	return nil
}

// ---------- history generation ----------

type world struct {
	c   map[string]int
	gen bool
}

func (w *world) enabled(op, f, g string, c Cfg) bool {
	switch op {
	case "edit", "touch", "rm":
		return w.c[f] != 0
	case "add", "addold":
		return w.c[f] == 0
	case "ren":
		return w.c[f] != 0 && w.c[g] == 0
	case "rmgen":
		return c.Gen && w.gen
	case "flip":
		return c.Status
	}
	return true
}

func (w *world) apply(s Step, c Cfg) {
	switch s.Op {
	case "edit":
		w.c[s.F] = 3 - w.c[s.F]
	case "add", "addold":
		w.c[s.F] = 1
	case "rm":
		w.c[s.F] = 0
	case "ren":
		w.c[s.G], w.c[s.F] = w.c[s.F], 0
	case "rmgen":
		w.gen = false
	case "inv":
		// whether the generated file exists afterwards depends on the outcome; be permissive
		if c.Gen && (s.Mode == "run" || s.Mode == "force" || s.Mode == "other" || s.Mode == "fail2" || s.Mode == "kill2") {
			w.gen = true
		}
	}
}

var fileOps = []Step{{Op: "edit", F: "a"}, {Op: "touch", F: "a"}, {Op: "add", F: "b"}, {Op: "addold", F: "b"}, {Op: "rm", F: "a"},
	{Op: "ren", F: "a", G: "b"}, {Op: "edit", F: "x"}, {Op: "touch", F: "x"}, {Op: "rm", F: "x"}, {Op: "rmgen"}, {Op: "flip"}}

var allModes = []string{"run", "other", "fail1", "fail2", "failpre", "depfail1", "forcefail1", "retryfail1", "cancelsib", "kill1", "kill2", "prompt", "force", "dry", "status", "list", "listjson", "summary", "drydir", "dryfailpre", "dryforce"}

func inv(m string) Step { return Step{Op: "inv", Mode: m} }

// valid filters a step list against the abstract world (drops disabled file operations)
func valid(c Cfg, steps []Step) ([]Step, bool) {
	w := &world{c: map[string]int{"a": 1, "b": 0, "x": 1}}
	var out []Step
	for _, s := range steps {
		if s.Op == "inv" {
			if s.Mode == "prompt" && !c.Prompt {
				return nil, false
			}
		} else if !w.enabled(s.Op, s.F, s.G, c) {
			return nil, false
		}
		w.apply(s, c)
		out = append(out, s)
	}
	return out, true
}

func configs() []Cfg {
	var cs []Cfg
	for _, m := range []string{"checksum", "timestamp"} {
		for _, g := range []bool{false, true} {
			for _, st := range []bool{false, true} {
				cs = append(cs, Cfg{Method: m, Gen: g, Status: st})
			}
		}
		cs = append(cs, Cfg{Method: m, Gen: true, Prompt: true})
		cs = append(cs, Cfg{Method: m, Prompt: true})
		cs = append(cs, Cfg{Method: m, Collide: true})
		if m == "checksum" { // the timestamp marker is named after the task, not the label
			cs = append(cs, Cfg{Method: m, Label: true})
		}
		cs = append(cs, Cfg{Method: m, Reinc: true})
		cs = append(cs, Cfg{Method: m, Gen: true, Reinc: true})
	}
	return cs
}

// Systematic enumerates the grammar  [run] ; [op] ; X ; [op] ; run  for every config.
func Systematic() []History {
	var hs []History
	n := 0
	add := func(c Cfg, steps ...Step) {
		if st, ok := valid(c, steps); ok {
			n++
			c.Pat = pats[(n+int(rep.Seed()))%len(pats)]
			c.Big = (n/len(pats))%3 == 1
			c.NoDesc = (n/len(pats))%4 == 2
			hs = append(hs, History{ID: fmt.Sprintf("s%d", n), Cfg: c, Steps: st})
		}
	}
	for _, c := range configs() {
		for _, x := range allModes {
			add(c, inv(x), inv("run"))
			add(c, inv("run"), inv(x), inv("run"))
			for _, op := range fileOps {
				add(c, inv("run"), op, inv(x), inv("run"))
				add(c, inv("run"), inv(x), op, inv("run"))
			}
		}
		for _, op := range fileOps {
			add(c, inv("run"), op, inv("run"), inv("run"))
			add(c, inv("run"), op, inv("status"))
			for _, op2 := range fileOps {
				add(c, inv("run"), op, op2, inv("run"))
			}
		}
	}
	return hs
}

// Random draws longer histories.
func Random(r *rand.Rand, n int, maxLen int) []History {
	cs := configs()
	var hs []History
	for len(hs) < n {
		c := cs[r.Intn(len(cs))]
		c.Pat = pats[r.Intn(len(pats))]
		c.Big = r.Intn(3) == 0
		c.NoDesc = r.Intn(4) == 0
		w := &world{c: map[string]int{"a": 1, "b": 0, "x": 1}}
		var steps []Step
		L := 4 + r.Intn(maxLen-3)
		for len(steps) < L {
			var s Step
			if r.Intn(5) < 2 {
				s = fileOps[r.Intn(len(fileOps))]
				if !w.enabled(s.Op, s.F, s.G, c) {
					continue
				}
			} else {
				m := allModes[r.Intn(len(allModes))]
				if r.Intn(3) == 0 {
					m = "run"
				}
				if m == "prompt" && !c.Prompt {
					continue
				}
				s = inv(m)
			}
			w.apply(s, c)
			steps = append(steps, s)
		}
		steps = append(steps, inv("run"))
		hs = append(hs, History{ID: fmt.Sprintf("r%d", len(hs)+1), Cfg: c, Steps: steps})
	}
	return hs
}

// ---------- TLC evaluation ----------

type Verdict struct {
	Viols []rep.Viol
	Drift string
}

var verdictRe = regexp.MustCompile(`^"VERDICT\|([^|]*)\|(\{.*\})\|(\{.*\})"$`)
var violRe = regexp.MustCompile(`\[prop \|-> \\?"([^"\\]+)\\?", sig \|-> \\?"([^"\\]+)\\?"\]`)

func Evaluate(hs []History) (map[string]Verdict, int64, error) {
	r := tlc.Run(tlc.Opts{SpecDir: SpecDir, Extra: map[string]string{"FpData.tla": DataModule(hs)},
		Module: "FpTrace", Config: "FpTrace.cfg", Workers: 1, Timeout: 10 * time.Minute})
	out := map[string]Verdict{}
	for _, ln := range tlc.Printed(r.Out, "VERDICT") {
		m := verdictRe.FindStringSubmatch(ln)
		if m == nil {
			continue
		}
		var v Verdict
		for _, x := range violRe.FindAllStringSubmatch(m[2], -1) {
			v.Viols = append(v.Viols, rep.Viol{Prop: x[1], Sig: x[2]})
		}
		if m[3] != "{}" {
			v.Drift = m[3]
		}
		out[m[1]] = v
	}
	if len(out) != len(hs) {
		tail := r.Out
		if len(tail) > 3000 {
			tail = tail[len(tail)-3000:]
		}
		return out, r.Distinct, fmt.Errorf("TLC evaluated %d of %d histories:\n%s", len(out), len(hs), tail)
	}
	return out, r.Distinct, nil
}

func ExecuteAll(hs []History, workers int) []error {
	errs := make([]error, len(hs))
	var wg sync.WaitGroup
	ch := make(chan int, len(hs))
	for i := range hs {
		ch <- i
	}
	close(ch)
	for w := 0; w < workers; w++ {
		wg.Add(1)
		go func() {
			defer wg.Done()
			for i := range ch {
				errs[i] = Execute(&hs[i])
			}
		}()
	}
	wg.Wait()
	return errs
}

func Pretty(h History) string {
	var p []string
	for _, s := range h.Steps {
		if s.Op == "inv" {
			p = append(p, fmt.Sprintf("%s→ran%v,exit%d%s", s.Mode, s.Ran, s.Exit, map[bool]string{true: ",fs-changed", false: ""}[s.Diff]))
		} else if s.G != "" {
			p = append(p, fmt.Sprintf("%s(%s→%s)", s.Op, s.F, s.G))
		} else if s.F != "" {
			p = append(p, fmt.Sprintf("%s(%s)", s.Op, s.F))
		} else {
			p = append(p, s.Op)
		}
	}
	c := h.Cfg
	return fmt.Sprintf("[%s gen=%v status=%v prompt=%v collide=%v reinclude-x=%v sources-as=%q big=%v nodesc=%v] %s", c.Method, c.Gen, c.Status, c.Prompt, c.Collide || c.Label, c.Reinc, c.Pat, c.Big, c.NoDesc, strings.Join(p, " ; "))
}

var _ = runtime.NumCPU
