package loadfam

import (
	"bytes"
	"context"
	"fmt"
	"os"
	"os/exec"
	"path/filepath"
	"runtime"
	"strings"
	"sync"
	"time"

	"verifharness/tlaval"
	"verifharness/tlc"
)

// GrowEcho: the Echo.tla cases against the CLI (specification growth beyond the listed properties).
func GrowEcho() int {
	t0 := time.Now()
	r := tlc.Run(tlc.Opts{SpecDir: SpecDir, Module: "Echo", Config: "Echo.cfg", Workers: runtime.NumCPU(), Timeout: 10 * time.Minute})
	if !r.OK {
		fmt.Println("ERROR: TLC did not complete:", tailS(r.Out, 2000))
		return 2
	}
	type ec struct{ cfg, exp map[string]any }
	var cases []ec
	for _, ln := range strings.Split(r.Out, "\n") {
		ln = strings.TrimSpace(ln)
		if !strings.HasPrefix(ln, `"CASE|`) {
			continue
		}
		v, err := tlaval.Parse(strings.TrimPrefix(tlaval.Unquote(ln), "CASE|"))
		if err != nil {
			fmt.Println("ERROR:", err)
			return 2
		}
		m := tlaval.Rec(v)
		cases = append(cases, ec{tlaval.Rec(m["cfg"]), tlaval.Rec(m["exp"])})
	}
	bin := taskBin
	if b := os.Getenv("VERIF_TASKBIN"); b != "" {
		bin = b
	}
	var mu sync.Mutex
	bad := 0
	var firstBad string
	ch := make(chan ec, 64)
	var wg sync.WaitGroup
	for w := 0; w < runtime.NumCPU(); w++ {
		wg.Add(1)
		go func() {
			defer wg.Done()
			for c := range ch {
				b := func(k string) bool { return tlaval.Bool(c.cfg[k]) }
				via := tlaval.Str(c.cfg["via"])
				tmp, err := os.MkdirTemp("/dev/shm", "ec")
				if err != nil {
					continue
				}
				tf := "version: '3'\n"
				if b("gsilent") {
					tf += "silent: true\n"
				}
				tf += "tasks:\n  target:\n"
				if b("label") {
					tf += "    label: 'the label'\n"
				}
				if b("tsilent") {
					tf += "    silent: true\n"
				}
				if b("uptodate") {
					tf += "    status: ['true']\n"
				}
				tf += "    cmds:\n      - cmd: echo RAN-IT\n"
				if b("csilent") {
					tf += "        silent: true\n"
				}
				// the wrapper task is silent on its own account so that only the target speaks
				switch via {
				case "call":
					tf += "  entry:\n    cmds:\n      - task: target\n"
				case "callsilent":
					tf += "  entry:\n    cmds:\n      - task: target\n        silent: true\n"
				case "dep":
					tf += "  entry:\n    deps:\n      - task: target\n"
				case "depsilent":
					tf += "  entry:\n    deps:\n      - task: target\n        silent: true\n"
				}
				os.WriteFile(filepath.Join(tmp, "Taskfile.yml"), []byte(tf), 0o644)
				args := []string{"entry"}
				if via == "direct" {
					args = []string{"target"}
				}
				if b("fsilent") {
					args = append(args, "--silent")
				}
				if b("verbose") {
					args = append(args, "--verbose")
				}
				if b("dry") {
					args = append(args, "--dry")
				}
				ctx, cancel := context.WithTimeout(context.Background(), 20*time.Second)
				cmd := exec.CommandContext(ctx, bin, args...)
				cmd.Dir = tmp
				cmd.Env = append(os.Environ(), "NO_COLOR=1")
				cmd.Cancel = func() error { return cmd.Process.Kill() }
				var so, se bytes.Buffer
				cmd.Stdout, cmd.Stderr = &so, &se
				err = cmd.Run()
				cancel()
				name := tlaval.Str(c.exp["name"])
				has := func(s, line string) bool {
					for _, ln := range strings.Split(s, "\n") {
						if strings.TrimSpace(ln) == line {
							return true
						}
					}
					return false
				}
				gotEcho := has(se.String(), fmt.Sprintf("task: [%s] echo RAN-IT", name))
				gotRan := has(so.String(), "RAN-IT")
				gotUp := has(se.String(), fmt.Sprintf("task: Task %q is up to date", name))
				wantEcho, wantRan, wantUp := tlaval.Bool(c.exp["echoed"]), tlaval.Bool(c.exp["ran"]), tlaval.Bool(c.exp["uptodate"])
				if err != nil || gotEcho != wantEcho || gotRan != wantRan || gotUp != wantUp {
					mu.Lock()
					bad++
					if firstBad == "" {
						firstBad = fmt.Sprintf("%v: want echoed=%v ran=%v uptodate=%v, got %v %v %v (err %v)\nstderr: %s\nstdout: %s\n%s", c.cfg, wantEcho, wantRan, wantUp, gotEcho, gotRan, gotUp, err, se.String(), so.String(), tf)
					}
					mu.Unlock()
				}
				os.RemoveAll(tmp)
			}
		}()
	}
	for _, c := range cases {
		ch <- c
	}
	close(ch)
	wg.Wait()
	fmt.Printf("grow-echo: %d configurations from Echo.tla against the CLI, %d disagree, %.1fs\n", len(cases), bad, time.Since(t0).Seconds())
	if bad > 0 {
		fmt.Println("first disagreement:", firstBad)
		return 1
	}
	return 0
}
