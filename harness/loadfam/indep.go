package loadfam

import (
	"bytes"
	"context"
	"fmt"
	"os"
	"path/filepath"
	"runtime"
	"strings"
	"sync"
	"time"

	"github.com/go-task/task/v3"

	"verifharness/rep"
	"verifharness/tlaval"
	"verifharness/tlc"
)

type iCall struct{ T, A string }
type iCase struct {
	Target iCall
	Prefix []iCall
	Mode   string
	Exp    []string
}

const indepLib = `  dA:
    dir: ./a
    vars: {D: {sh: pwd}}
    cmds: ['printf "{{.K}}|dA|{{.D}}\\n"']
  dB:
    dir: ./b
    vars: {D: {sh: pwd}}
    cmds: ['printf "{{.K}}|dB|{{.D}}\\n"']
  eA:
    env: {X: a}
    vars: {D: {sh: 'echo $X'}}
    cmds: ['printf "{{.K}}|eA|{{.D}}\\n"']
  eB:
    env: {X: b}
    vars: {D: {sh: 'echo $X'}}
    cmds: ['printf "{{.K}}|eB|{{.D}}\\n"']
  cV:
    cmds: ['printf "{{.K}}|cV|{{.V}}\\n"']
  sV:
    vars: {D: {sh: 'echo {{.V}}'}}
    cmds: ['printf "{{.K}}|sV|{{.D}}\\n"']
  dF:
    cmds:
      - defer: 'printf "{{.K}}|dF|deferred|{{.V}}\\n"'
      - 'printf "{{.K}}|dF|work|{{.V}}\\n"'
  mR:
    cmds:
      - for: {matrix: {X: {ref: .L}}}
        cmd: 'printf "{{.K}}|mR|{{.ITEM.X}}\\n"'
  fV:
    cmds:
      - for: {var: S}
        cmd: 'printf "{{.K}}|fV|{{.ITEM}}\\n"'
  nA:
    dir: ./a
    dotenv: ['.env']
    cmds: ['printf "{{.K}}|nA|$DV\\n"']
  nB:
    dir: ./b
    dotenv: ['.env']
    cmds: ['printf "{{.K}}|nB|$DV\\n"']
  rQ:
    requires: {vars: [R]}
    cmds: ['printf "{{.K}}|rQ|{{.R}}\\n"']
  gT:
    cmds: ['printf "{{.K}}|gT|{{.G}}\\n"']
  gU:
    cmds: ['printf "{{.K}}|gU|{{.G}}\\n"']
  gS:
    cmds: ['printf "{{.K}}|gS|{{.GS}}\\n"']
  gR:
    cmds: ['printf "{{.K}}|gR|{{.GS}}\\n"']
`

func callYAML(c iCall, k string) string {
	vars := "K: " + k
	switch c.T {
	case "cV", "sV", "dF":
		vars += ", V: " + c.A
	case "rQ":
		if c.A != "" {
			vars += ", R: " + c.A
		}
	case "mR":
		vars += ", L: {ref: .L" + strings.TrimPrefix(c.A, "l") + "}"
	case "fV":
		vars += ", S: '" + map[string]string{"s1": "p q", "s2": "r"}[c.A] + "'"
	}
	return fmt.Sprintf("{task: %s, vars: {%s}}", c.T, vars)
}

func indepTaskfile(prefix []iCall, target iCall, mode string) string {
	var items []string
	for i, p := range prefix {
		items = append(items, callYAML(p, fmt.Sprintf("p%d", i+1)))
	}
	items = append(items, callYAML(target, "T"))
	key := "cmds"
	if mode == "par" {
		key = "deps"
	}
	return "version: '3'\nsilent: true\nvars:\n  L1: {map: ['1', '2']}\n  L2: {map: ['x']}\n  G: 'g-{{.TASK}}'\n  GS: {sh: 'echo s-{{.TASK}}'}\ntasks:\n  entry:\n    " + key + ": [" + strings.Join(items, ", ") + "]\n" + indepLib
}

func runIndep(content string) ([]string, error) {
	dir, err := os.MkdirTemp("/dev/shm", "in")
	if err != nil {
		return nil, err
	}
	defer os.RemoveAll(dir)
	real, _ := filepath.EvalSymlinks(dir)
	os.MkdirAll(filepath.Join(dir, "a"), 0o755)
	os.MkdirAll(filepath.Join(dir, "b"), 0o755)
	os.WriteFile(filepath.Join(dir, "a", ".env"), []byte("DV=env-a\n"), 0o644)
	os.WriteFile(filepath.Join(dir, "b", ".env"), []byte("DV=env-b\n"), 0o644)
	os.WriteFile(filepath.Join(dir, "Taskfile.yml"), []byte(content), 0o644)
	var out bytes.Buffer
	lw := &syncWriter{w: &out}
	e := task.NewExecutor(task.WithDir(dir), task.WithStdout(lw), task.WithStderr(&bytes.Buffer{}), task.WithVersionCheck(false),
		task.WithTempDir(task.TempDir{Remote: filepath.Join(dir, ".task"), Fingerprint: filepath.Join(dir, ".task")}))
	if err := safeSetup(e); err != nil {
		return nil, err
	}
	ctx, c := context.WithTimeout(context.Background(), 20*time.Second)
	defer c()
	err = func() (err error) {
		defer func() {
			if r := recover(); r != nil {
				err = fmt.Errorf("panic: %v", r)
			}
		}()
		return e.Run(ctx, &task.Call{Task: "entry"})
	}()
	var lines []string
	for _, ln := range strings.Split(out.String(), "\n") {
		if strings.HasPrefix(ln, "T|") {
			ln = strings.TrimPrefix(ln, "T|")
			ln = strings.ReplaceAll(ln, real, "ROOT")
			ln = strings.ReplaceAll(ln, dir, "ROOT")
			lines = append(lines, ln)
		}
	}
	if err != nil && strings.Contains(err.Error(), "missing required variables") {
		lines = append(lines, "rQ|!missing-required")
	}
	return lines, err
}

type syncWriter struct {
	mu sync.Mutex
	w  *bytes.Buffer
}

func (s *syncWriter) Write(p []byte) (int, error) {
	s.mu.Lock()
	defer s.mu.Unlock()
	return s.w.Write(p)
}

type iMismatch struct {
	Sig      string   `json:"sig"`
	Target   iCall    `json:"target"`
	Prefix   []iCall  `json:"prefix"`
	Mode     string   `json:"mode"`
	Alone    []string `json:"lines_when_run_alone"`
	Got      []string `json:"lines_in_scenario"`
	Spec     []string `json:"lines_per_specification"`
	Taskfile string   `json:"taskfile"`
}

func CheckC11(tier string) int {
	t0 := time.Now()
	rp := rep.NewReporter("C11")
	kf := rep.LoadFindings()
	maxp := 2
	cfg := fmt.Sprintf("SPECIFICATION Spec\nCONSTANT MaxPrefix = %d\nCONSTRAINT Emit\nCHECK_DEADLOCK FALSE\n", maxp)
	r := tlc.Run(tlc.Opts{SpecDir: SpecDir, Extra: map[string]string{"Gen.cfg": cfg}, Module: "Indep", Config: "Gen.cfg", Workers: runtime.NumCPU(), Timeout: 10 * time.Minute})
	if !r.OK {
		fmt.Println("ERROR: TLC did not complete:", tailS(r.Out, 2000))
		return 2
	}
	var cases []iCase
	for _, ln := range strings.Split(r.Out, "\n") {
		ln = strings.TrimSpace(ln)
		if !strings.HasPrefix(ln, `"CASE|`) {
			continue
		}
		v, err := tlaval.Parse(strings.TrimPrefix(tlaval.Unquote(ln), "CASE|"))
		if err != nil {
			fmt.Println("ERROR:", err)
			return 2
		}
		m := tlaval.Rec(v)
		sc := tlaval.Rec(m["sc"])
		call := func(x any) iCall { c := tlaval.Rec(x); return iCall{tlaval.Str(c["t"]), tlaval.Str(c["a"])} }
		c := iCase{Target: call(sc["target"]), Mode: tlaval.Str(sc["mode"]), Exp: strs(m["exp"])}
		for _, p := range tlaval.Seq(sc["prefix"]) {
			c.Prefix = append(c.Prefix, call(p))
		}
		cases = append(cases, c)
	}
	if tier == "quick" {
		var sel []iCase
		off := int(rep.Seed()) % 3
		for i, c := range cases {
			if len(c.Prefix) <= 1 || (i+off)%3 == 0 {
				sel = append(sel, c)
			}
		}
		cases = sel
	}
	reps := 1
	if tier == "thorough" {
		reps = 3
	}
	alone := map[iCall][]string{}
	var mu sync.Mutex
	var ms []iMismatch
	ch := make(chan iCase, 64)
	var wg sync.WaitGroup
	for w := 0; w < runtime.NumCPU(); w++ {
		wg.Add(1)
		go func() {
			defer wg.Done()
			for c := range ch {
				mu.Lock()
				al, ok := alone[c.Target]
				mu.Unlock()
				if !ok {
					al, _ = runIndep(indepTaskfile(nil, c.Target, "seq"))
					mu.Lock()
					alone[c.Target] = al
					mu.Unlock()
				}
				tf := indepTaskfile(c.Prefix, c.Target, c.Mode)
				for k := 0; k < reps; k++ {
					got, err := runIndep(tf)
					bad := ""
					if err != nil && !(len(c.Exp) == 1 && strings.HasSuffix(c.Exp[0], "!missing-required") && strings.Contains(err.Error(), "missing required variables")) {
						bad = "run-failed"
					} else if strings.Join(got, "\n") != strings.Join(al, "\n") {
						bad = "differs-from-alone"
					}
					// absolute expectation where the specification fixes the text
					specOK := len(got) == len(c.Exp)
					for i := range c.Exp {
						if specOK && !strings.HasSuffix(c.Exp[i], "?") && got[i] != c.Exp[i] {
							specOK = false
						}
					}
					if bad == "" && !specOK {
						bad = "differs-from-specification"
					}
					if bad != "" {
						var ps []string
						for _, p := range c.Prefix {
							ps = append(ps, p.T)
						}
						mu.Lock()
						ms = append(ms, iMismatch{Sig: fmt.Sprintf("%s:%s", bad, c.Target.T), Target: c.Target, Prefix: c.Prefix, Mode: c.Mode,
							Alone: al, Got: got, Spec: c.Exp, Taskfile: tf})
						mu.Unlock()
						break
					}
				}
			}
		}()
	}
	for _, c := range cases {
		ch <- c
	}
	close(ch)
	wg.Wait()
	seen := map[string]int{}
	for _, m := range ms {
		seen[m.Sig]++
		if seen[m.Sig] > 1 {
			continue
		}
		if f := kf.Open("C11", m.Sig); f != nil {
			rp.KnownFinding(f)
			continue
		}
		path := rep.WriteReplay("C11", m)
		rp.Note("violation C11/%s: target %v prints %q, alone %q (specification %q)", m.Sig, m.Target, m.Got, m.Alone, m.Spec)
		rp.Violation(path)
	}
	ev := rep.Evidence{PropertyID: "C11", Tier: tier, Seed: rep.Seed(), Level: "model_checking",
		Coverage: map[string]any{"states": r.Distinct, "transitions": r.Distinct, "traces_validated_against_impl": len(cases) * reps,
			"samples": []any{map[string]any{"target": cases[len(cases)/2].Target, "prefix": cases[len(cases)/2].Prefix, "mode": cases[len(cases)/2].Mode, "expected": cases[len(cases)/2].Exp}},
			"evaluations": len(cases) * reps, "distinct_nontrivial": len(cases),
			"rule": "TLC enumerates every scenario of Indep.tla: a target call (12 calls of 8 library tasks containing the sharing hazards: the same sh: text in tasks with different dir / env, the same task with different call variables, matrix refs and for-loops over call variables) after (seq) or next to (par) every prefix of at most two other calls, with the lines the target must print; the driver runs the scenario with the real Executor and compares the target's lines with the specification and with the same call run alone",
			"mismatch_signatures": seen, "exhaustive": tier == "thorough"},
		Assumptions: []string{"a fixed library of 8 tasks; prefixes of length <= 2", "parallel scenarios are run " + fmt.Sprint(reps) + " time(s); their interleaving is not controlled"},
		WallS: time.Since(t0).Seconds(), Violations: rp.Violations}
	ev.Write()
	fmt.Printf("C11 %s: %d scenarios, %d mismatches, %d violation(s) %v, %.1fs\n", tier, len(cases), len(ms), rp.Violations, seen, time.Since(t0).Seconds())
	if rp.Violations > 0 {
		return 1
	}
	return 0
}
