package loadfam

import (
	"bytes"
	"context"
	"fmt"
	"os"
	"os/exec"
	"path/filepath"
	"runtime"
	"strings"
	"sync"
	"time"

	"verifharness/tlaval"
	"verifharness/tlc"
)

const specialProbe = `      - 'echo "SP|{{.TASK}}|{{.ALIAS}}|{{.ROOT_DIR}}|{{.ROOT_TASKFILE}}|{{.TASKFILE}}|{{.TASKFILE_DIR}}|{{.TASK_DIR}}|$PWD|{{.USER_WORKING_DIR}}|{{.CLI_FORCE}}|{{.CLI_SILENT}}|{{.CLI_VERBOSE}}"'
`

func specialFiles(loc, incdir, taskdir string) map[string]string {
	target := "  target:\n    aliases: [tg]\n"
	if taskdir == "sub" {
		target += "    dir: sub\n"
	}
	target += "    cmds:\n" + specialProbe
	other := "  other:\n    cmds:\n      - echo other\n"
	root := "version: '3'\nsilent: true\nincludes:\n  inc:\n    taskfile: ./inc\n"
	if incdir == "work" {
		root += "    dir: work\n"
	}
	root += "tasks:\n"
	callee := map[string]string{"root": "target", "inc": "inc:target", "deep": "inc:deep:target"}[loc]
	root += "  entry:\n    cmds:\n      - task: " + callee + "\n"
	inc := "version: '3'\nsilent: true\nincludes:\n  deep:\n    taskfile: ./deep\ntasks:\n"
	deep := "version: '3'\nsilent: true\ntasks:\n"
	switch loc {
	case "root":
		root += target
		inc += other
		deep += other
	case "inc":
		inc += target
		deep += other
	case "deep":
		inc += other
		deep += target
	}
	return map[string]string{"Taskfile.yml": root, "inc/Taskfile.yml": inc, "inc/deep/Taskfile.yml": deep}
}

// GrowSpecial: the Special.tla cases against the CLI (specification growth beyond the listed properties).
func GrowSpecial() int {
	t0 := time.Now()
	r := tlc.Run(tlc.Opts{SpecDir: SpecDir, Module: "Special", Config: "Special.cfg", Workers: runtime.NumCPU(), Timeout: 10 * time.Minute})
	if !r.OK {
		fmt.Println("ERROR: TLC did not complete:", tailS(r.Out, 2000))
		return 2
	}
	type sc struct {
		cfg map[string]string
		exp map[string]any
	}
	var cases []sc
	for _, ln := range strings.Split(r.Out, "\n") {
		ln = strings.TrimSpace(ln)
		if !strings.HasPrefix(ln, `"CASE|`) {
			continue
		}
		v, err := tlaval.Parse(strings.TrimPrefix(tlaval.Unquote(ln), "CASE|"))
		if err != nil {
			fmt.Println("ERROR:", err)
			return 2
		}
		m := tlaval.Rec(v)
		c := sc{cfg: map[string]string{}, exp: tlaval.Rec(m["exp"])}
		for k, x := range tlaval.Rec(m["cfg"]) {
			c.cfg[k] = tlaval.Str(x)
		}
		cases = append(cases, c)
	}
	bin := taskBin
	if b := os.Getenv("VERIF_TASKBIN"); b != "" {
		bin = b
	}
	var mu sync.Mutex
	bad := 0
	var firstBad string
	ch := make(chan sc, 64)
	var wg sync.WaitGroup
	for w := 0; w < runtime.NumCPU(); w++ {
		wg.Add(1)
		go func() {
			defer wg.Done()
			for c := range ch {
				tmp, err := os.MkdirTemp("/dev/shm", "sp")
				if err != nil {
					continue
				}
				root, _ := filepath.EvalSymlinks(tmp)
				for name, content := range specialFiles(c.cfg["loc"], c.cfg["incdir"], c.cfg["taskdir"]) {
					p := filepath.Join(root, name)
					os.MkdirAll(filepath.Dir(p), 0o755)
					os.WriteFile(p, []byte(content), 0o644)
				}
				for _, d := range []string{"cw", "work/sub", "sub", "inc/sub"} {
					os.MkdirAll(filepath.Join(root, d), 0o755)
				}
				pfx := map[string]string{"root": "", "inc": "inc:", "deep": "inc:deep:"}[c.cfg["loc"]]
				args := []string{map[string]string{"name": pfx + "target", "alias": pfx + "tg", "call": "entry"}[c.cfg["via"]]}
				switch c.cfg["flag"] {
				case "force":
					args = append(args, "--force")
				case "silent":
					args = append(args, "--silent")
				case "verbose":
					args = append(args, "--verbose")
				case "taskfile":
					args = append(args, "--taskfile", filepath.Join(root, "Taskfile.yml"))
				}
				ctx, cancel := context.WithTimeout(context.Background(), 20*time.Second)
				cmd := exec.CommandContext(ctx, bin, args...)
				cmd.Dir = root
				if c.cfg["cwd"] == "below" {
					cmd.Dir = filepath.Join(root, "cw")
				}
				cmd.Cancel = func() error { return cmd.Process.Kill() }
				var out bytes.Buffer
				cmd.Stdout, cmd.Stderr = &out, &out
				err = cmd.Run()
				cancel()
				got := ""
				for _, ln := range strings.Split(out.String(), "\n") {
					if strings.HasPrefix(ln, "SP|") {
						got = ln
					}
				}
				path := func(k string) string {
					segs := []string{root}
					for _, x := range tlaval.Seq(c.exp[k]) {
						segs = append(segs, tlaval.Str(x))
					}
					return filepath.Join(segs...)
				}
				b := func(k string) string { return fmt.Sprint(tlaval.Bool(c.exp[k])) }
				want := strings.Join([]string{"SP", tlaval.Str(c.exp["task"]), tlaval.Str(c.exp["alias"]), path("rootdir"), path("roottf"), path("taskfile"),
					path("tfdir"), path("taskdir"), path("pwd"), path("uwd"), b("force"), b("silent"), b("verbose")}, "|")
				if got != want || err != nil {
					mu.Lock()
					bad++
					if firstBad == "" {
						firstBad = fmt.Sprintf("%v:\n  want %s\n  got  %s\n  (err %v) %s", c.cfg, strings.ReplaceAll(want, root, "ROOT"), strings.ReplaceAll(got, root, "ROOT"), err, strings.ReplaceAll(tailS(out.String(), 400), root, "ROOT"))
					}
					mu.Unlock()
				}
				os.RemoveAll(tmp)
			}
		}()
	}
	for _, c := range cases {
		ch <- c
	}
	close(ch)
	wg.Wait()
	fmt.Printf("grow-special: %d configurations from Special.tla against the CLI, %d disagree, %.1fs\n", len(cases), bad, time.Since(t0).Seconds())
	if bad > 0 {
		fmt.Println("first disagreement:", firstBad)
		return 1
	}
	return 0
}
