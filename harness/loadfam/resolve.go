// Package loadfam: the functional ("cases") specifications of loading and name resolution.
package loadfam

import (
	"bytes"
	"context"
	"fmt"
	"os"
	"path/filepath"
	"runtime"
	"strings"
	"sync"
	"time"

	"github.com/go-task/task/v3"
	taskerrors "github.com/go-task/task/v3/errors"

	"verifharness/rep"
	"verifharness/tlc"
)

var SpecDir = rep.Root + "/specs/load"

type rEntry struct{ Name, Alias string }
type rExp struct {
	Req, Kind, Sugg string
	Idx             int
}
type rCase struct {
	Tab  []rEntry
	Reqs []rExp
}

func parseCases(out string) []rCase {
	var cs []rCase
	for _, ln := range strings.Split(out, "\n") {
		ln = strings.TrimSpace(ln)
		if !strings.HasPrefix(ln, `"CASE|`) {
			continue
		}
		ln = strings.TrimSuffix(strings.TrimPrefix(ln, `"CASE|`), `"`)
		ln = strings.ReplaceAll(ln, `\\`, `\`)
		parts := strings.SplitN(ln, "|", 2)
		if len(parts) != 2 {
			continue
		}
		var c rCase
		for _, e := range strings.Split(strings.TrimSuffix(parts[0], "/"), "/") {
			f := strings.SplitN(e, ",", 2)
			if len(f) == 2 {
				c.Tab = append(c.Tab, rEntry{f[0], f[1]})
			}
		}
		for _, e := range strings.Split(strings.TrimSuffix(parts[1], "/"), "/") {
			f := strings.Split(e, ",")
			if len(f) == 4 {
				x := rExp{Req: f[0], Kind: f[1], Sugg: f[3]}
				fmt.Sscanf(f[2], "%d", &x.Idx)
				c.Reqs = append(c.Reqs, x)
			}
		}
		cs = append(cs, c)
	}
	return cs
}

func yq(s string) string { return "'" + strings.ReplaceAll(s, "'", "''") + "'" }

func resolveTaskfile(tab []rEntry) string {
	var b strings.Builder
	b.WriteString("version: '3'\nsilent: true\ntasks:\n")
	for i, e := range tab {
		fmt.Fprintf(&b, "  %s:\n", yq(e.Name))
		if e.Alias != "" {
			fmt.Fprintf(&b, "    aliases: [%s]\n", yq(e.Alias))
		}
		fmt.Fprintf(&b, "    cmds:\n      - echo 'T%d{{range .MATCH}}<{{.}}>{{end}}'\n", i+1)
	}
	return b.String()
}

type rMismatch struct {
	Sig      string   `json:"sig"`
	Table    []rEntry `json:"table"`
	Taskfile string   `json:"taskfile"`
	Request  string   `json:"request"`
	Expected string   `json:"expected"`
	Got      string   `json:"got"`
}

// substitute the captures for the stars of a pattern
func subst(pattern string, caps []string) (string, bool) {
	var b strings.Builder
	k := 0
	for _, r := range pattern {
		if r == '*' {
			if k >= len(caps) {
				return "", false
			}
			b.WriteString(caps[k])
			k++
		} else {
			b.WriteRune(r)
		}
	}
	return b.String(), k == len(caps)
}

// evalCase runs one table against the real executor; it returns mismatches and the number of requests tried.
func evalCase(c rCase, runEvery int, counter *int) (ms []rMismatch, panics []rMismatch) {
	dir, err := os.MkdirTemp("/dev/shm", "rs")
	if err != nil {
		return
	}
	defer os.RemoveAll(dir)
	tf := resolveTaskfile(c.Tab)
	os.WriteFile(filepath.Join(dir, "Taskfile.yml"), []byte(tf), 0o644)
	var stdout, stderr bytes.Buffer
	var e *task.Executor
	setupErr := func() (err error) {
		defer func() {
			if r := recover(); r != nil {
				err = fmt.Errorf("panic: %v", r)
			}
		}()
		e = task.NewExecutor(task.WithDir(dir), task.WithStdout(&stdout), task.WithStderr(&stderr), task.WithVersionCheck(false),
			task.WithTempDir(task.TempDir{Remote: filepath.Join(dir, ".task"), Fingerprint: filepath.Join(dir, ".task")}))
		return e.Setup()
	}()
	if setupErr != nil {
		m := rMismatch{Sig: "setup-failed", Table: c.Tab, Taskfile: tf, Got: setupErr.Error()}
		if strings.HasPrefix(setupErr.Error(), "panic") {
			m.Sig = "panic-in-setup"
			panics = append(panics, m)
		}
		ms = append(ms, m)
		return
	}
	for _, x := range c.Reqs {
		*counter++
		got, detail := "", ""
		var caps []string
		func() {
			defer func() {
				if r := recover(); r != nil {
					got, detail = "panic", fmt.Sprint(r)
				}
			}()
			call := &task.Call{Task: x.Req}
			t, err := e.GetTask(call)
			switch {
			case err == nil:
				got = "task"
				detail = t.Task
				if v, ok := call.Vars.Get("MATCH"); ok {
					if ss, ok := v.Value.([]string); ok {
						caps = ss
					}
				}
			default:
				if te, ok := err.(taskerrors.TaskError); ok {
					got = fmt.Sprintf("err%d", te.Code())
					if nf, ok := err.(*taskerrors.TaskNotFoundError); ok {
						detail = nf.DidYouMean
					}
				} else {
					got = "error"
					detail = err.Error()
				}
			}
		}()
		bad := ""
		want := x.Kind
		via := want
		if want == "exact" || want == "wild" || want == "alias" {
			want = "task"
		}
		switch {
		case got == "panic":
			bad = "panic"
		case want == "task" && got == "task":
			if detail != c.Tab[x.Idx-1].Name {
				bad = "wrong-task"
			} else if via == "wild" {
				if s, ok := subst(detail, caps); !ok || s != x.Req {
					bad = "wrong-match"
				}
			}
		case want != got:
			bad = "expected-" + want + "-got-" + got
		case want == "err200" && x.Sugg != "" && detail != x.Sugg:
			bad = "no-suggestion"
		}
		if bad == "" && got == "task" && runEvery > 0 && *counter%runEvery == 0 {
			// run it: origin marker and rendered MATCH
			stdout.Reset()
			err := func() (err error) {
				defer func() {
					if r := recover(); r != nil {
						err = fmt.Errorf("panic: %v", r)
					}
				}()
				return e.Run(context.Background(), &task.Call{Task: x.Req})
			}()
			wantOut := fmt.Sprintf("T%d", x.Idx)
			for _, cp := range caps {
				wantOut += "<" + cp + ">"
			}
			if err != nil {
				bad = "run-failed"
				detail = err.Error()
			} else if strings.TrimSpace(stdout.String()) != wantOut {
				bad = "wrong-output"
				detail = stdout.String() + " want " + wantOut
			}
		}
		if bad != "" {
			m := rMismatch{Sig: bad, Table: c.Tab, Taskfile: tf, Request: x.Req,
				Expected: fmt.Sprintf("%s idx=%d sugg=%q", x.Kind, x.Idx, x.Sugg), Got: got + " " + detail}
			ms = append(ms, m)
			if bad == "panic" {
				panics = append(panics, m)
			}
		}
	}
	return
}

type ResolveOutcome struct {
	Cases, Requests int
	Mismatches      []rMismatch
	Panics          []rMismatch
	States          int64
	Wall            time.Duration
	Err             error
}

func resolveCfg(tier string) string {
	if tier == "thorough" {
		return "SPECIFICATION Spec\nCONSTANTS\n  Sigma <- SigmaT\n  MaxLen = 2\n  AliasU <- AliasQ\n  NTasks = 2\n  NameU <- NoNames\n  Letters <- LettersQ\nCONSTRAINT Emit\nCHECK_DEADLOCK FALSE\n"
	}
	return "SPECIFICATION Spec\nCONSTANTS\n  Sigma <- SigmaQ\n  MaxLen = 2\n  AliasU <- AliasQ\n  NTasks = 2\n  NameU <- NoNames\n  Letters <- LettersQ\nCONSTRAINT Emit\nCHECK_DEADLOCK FALSE\n"
}

// RunResolve: TLC enumerates the tables and the expected answers, the real executor is asked every request.
func RunResolve(tier string, extraCfgs ...string) ResolveOutcome {
	var out ResolveOutcome
	cfgs := append([]string{resolveCfg(tier)}, extraCfgs...)
	var cases []rCase
	for _, cfg := range cfgs {
		r := tlc.Run(tlc.Opts{SpecDir: SpecDir, Extra: map[string]string{"Gen.cfg": cfg}, Module: "ResolveMC", Config: "Gen.cfg",
			Workers: runtime.NumCPU(), Timeout: 20 * time.Minute})
		out.States += r.Distinct
		out.Wall += r.Wall
		if !r.OK {
			out.Err = fmt.Errorf("TLC did not complete: %s", tailS(r.Out, 2000))
			return out
		}
		cases = append(cases, parseCases(r.Out)...)
	}
	out.Cases = len(cases)
	var mu sync.Mutex
	var wg sync.WaitGroup
	ch := make(chan rCase, 256)
	for w := 0; w < runtime.NumCPU(); w++ {
		wg.Add(1)
		go func() {
			defer wg.Done()
			n := 0
			for c := range ch {
				ms, ps := evalCase(c, 50, &n)
				mu.Lock()
				out.Mismatches = append(out.Mismatches, ms...)
				out.Panics = append(out.Panics, ps...)
				mu.Unlock()
			}
			mu.Lock()
			out.Requests += n
			mu.Unlock()
		}()
	}
	for _, c := range cases {
		ch <- c
	}
	close(ch)
	wg.Wait()
	return out
}

func tailS(s string, n int) string {
	if len(s) > n {
		return s[len(s)-n:]
	}
	return s
}

// CheckC15 is the registered check for name resolution.
func CheckC15(tier string) int {
	t0 := time.Now()
	rp := rep.NewReporter("C15")
	kf := rep.LoadFindings()
	extra := []string{"SPECIFICATION Spec\nCONSTANTS\n  Sigma <- SigmaW\n  MaxLen = 5\n  AliasU <- AliasW\n  NTasks = 2\n  NameU <- WildNames\n  Letters <- LettersQ\nCONSTRAINT Emit\nCHECK_DEADLOCK FALSE\n",
		"SPECIFICATION Spec\nCONSTANTS\n  Sigma <- SigmaS\n  MaxLen = 6\n  AliasU <- AliasNone\n  NTasks = 2\n  NameU <- SuggNames\n  Letters <- LettersQ\nCONSTRAINT Emit\nCHECK_DEADLOCK FALSE\n"}
	if tier == "thorough" {
		extra = append(extra, "SPECIFICATION Spec\nCONSTANTS\n  Sigma <- SigmaQ\n  MaxLen = 2\n  AliasU <- AliasQ2\n  NTasks = 3\n  NameU <- NoNames\n  Letters <- LettersQ\nCONSTRAINT Emit\nCHECK_DEADLOCK FALSE\n")
	}
	o := RunResolve(tier, extra...)
	if o.Err != nil {
		fmt.Println("ERROR:", o.Err)
		return 2
	}
	seen := map[string]int{}
	var samples []any
	for _, m := range o.Mismatches {
		seen[m.Sig]++
		if seen[m.Sig] > 1 {
			continue
		}
		if f := kf.Open("C15", m.Sig); f != nil {
			rp.KnownFinding(f)
			continue
		}
		path := rep.WriteReplay("C15", m)
		rp.Note("violation C15/%s: table %v request %q: expected %s, got %s", m.Sig, m.Table, m.Request, m.Expected, m.Got)
		rp.Violation(path)
	}
	samples = append(samples, map[string]any{"table": []rEntry{{"a*", ""}, {"a(", "a"}}, "request": "a(", "expected": "task 2 (exact name wins)"},
		map[string]any{"note": "every table of 2 (thorough: also 3) tasks with names of length <= 2 over the alphabet and an optional alias, every request over the same names"})
	ev := rep.Evidence{PropertyID: "C15", Tier: tier, Seed: rep.Seed(), Level: "model_checking",
		Coverage: map[string]any{"states": o.States, "transitions": o.States, "traces_validated_against_impl": o.Requests, "samples": samples,
			"evaluations": o.Requests, "distinct_nontrivial": o.Requests,
			"rule": "TLC enumerates every ordered table of distinct task names (length<=2 over the alphabet incl. ':' '.' '*' '(' and, thorough, '-' '+' '$') with optional aliases and computes Resolve(table, request) for every request; each (table, request) is asked of the real Executor.GetTask (every 50th is also run and its output compared); all are distinct by construction",
			"tables": o.Cases, "mismatch_signatures": seen, "exhaustive": true},
		Assumptions: []string{"names up to length 2, tables of 2 (3) tasks, one alias per task from a small universe", "suggestion clause checked in its weakest form (unique name at edit distance 1)"},
		WallS: time.Since(t0).Seconds(), Violations: rp.Violations}
	ev.Write()
	fmt.Printf("C15 %s: %d tables, %d requests, %d mismatches (%v), %d violation(s), %.1fs\n", tier, o.Cases, o.Requests, len(o.Mismatches), seen, rp.Violations, time.Since(t0).Seconds())
	if rp.Violations > 0 {
		return 1
	}
	return 0
}
