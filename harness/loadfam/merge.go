package loadfam

import (
	"bytes"
	"context"
	"fmt"
	"os"
	"path/filepath"
	"reflect"
	"runtime"
	"sort"
	"strings"
	"sync"
	"time"

	"github.com/go-task/task/v3"
	taskerrors "github.com/go-task/task/v3/errors"
	"github.com/go-task/task/v3/taskfile/ast"

	"verifharness/rep"
	"verifharness/tlaval"
	"verifharness/tlc"
)

type mEntry struct {
	Name, File, Task, IV string
	Aliases              []string
	Ambiguous            []string
	Internal             bool
	Dir                  []string
	Deps, Calls          []string
}
type mInc struct {
	NS, File, Missing, Alias, Exclude, Dir, IV string
	Flatten, Internal                          bool
}
type mCase struct {
	Clash bool
	Tree  map[string][]mInc
	Errs  []int
	Table []mEntry
	Raw   string
}

func strs(v any) []string {
	var out []string
	for _, x := range tlaval.Seq(v) {
		out = append(out, tlaval.Str(x))
	}
	return out
}

func parseMerge(out string) ([]mCase, error) {
	var cs []mCase
	for _, ln := range strings.Split(out, "\n") {
		ln = strings.TrimSpace(ln)
		if !strings.HasPrefix(ln, `"CASE|`) {
			continue
		}
		txt := tlaval.Unquote(ln)
		v, err := tlaval.Parse(strings.TrimPrefix(txt, "CASE|"))
		if err != nil {
			return nil, fmt.Errorf("parse: %v in %s", err, txt[:min(200, len(txt))])
		}
		r := tlaval.Rec(v)
		c := mCase{Tree: map[string][]mInc{}, Raw: txt}
		for f, incs := range tlaval.Rec(r["tree"]) {
			if f == "clash" {
				c.Clash = tlaval.Bool(incs)
				continue
			}
			for _, iv := range tlaval.Seq(incs) {
				m := tlaval.Rec(iv)
				c.Tree[f] = append(c.Tree[f], mInc{NS: tlaval.Str(m["ns"]), File: tlaval.Str(m["file"]), Missing: tlaval.Str(m["missing"]), Alias: tlaval.Str(m["alias"]),
					Exclude: tlaval.Str(m["exclude"]), Dir: tlaval.Str(m["dir"]), IV: tlaval.Str(m["iv"]), Flatten: tlaval.Bool(m["flatten"]), Internal: tlaval.Bool(m["internal"])})
			}
		}
		e := tlaval.Rec(r["exp"])
		for _, x := range tlaval.Seq(e["errs"]) {
			c.Errs = append(c.Errs, tlaval.Int(x))
		}
		for _, x := range tlaval.Seq(e["table"]) {
			m := tlaval.Rec(x)
			c.Table = append(c.Table, mEntry{Name: tlaval.Str(m["name"]), File: tlaval.Str(m["file"]), Task: tlaval.Str(m["task"]), IV: tlaval.Str(m["iv"]),
				Aliases: strs(m["aliases"]), Ambiguous: strs(m["ambiguous"]), Internal: tlaval.Bool(m["internal"]), Dir: strs(m["dir"]), Deps: strs(m["deps"]), Calls: strs(m["calls"])})
		}
		cs = append(cs, c)
	}
	return cs, nil
}

var fileDir = map[string]string{"R": "", "A": "a", "B": "b", "C": "c", "D": "c/d"}

// fileName: A and B are siblings whose directories and file names sort in opposite orders (a/zeta.yml, b/apple.yml)
var fileName = map[string]string{"R": "Taskfile.yml", "A": "zeta.yml", "B": "apple.yml", "C": "Taskfile.yml", "D": "Taskfile.yml"}

// fileTasksYAML: the fixed files of Merge.tla (FileTasks), with attributes to be carried over.
var fileTasksYAML = map[string]string{
	"R": `  r1:
    cmds:
      - echo "O|R.r1|$PWD|{{.IV}}"
  r2:
    deps: [r1]
    cmds:
      - echo "O|R.r2|$PWD|{{.IV}}"
`,
	"A": `  t1:
    aliases: [al]
    cmds:
      - echo "O|A.t1|$PWD|{{.IV}}"
  t2:
    desc: second task of A
    summary: a summary
    label: 'lbl'
    silent: true
    interactive: false
    method: none
    prefix: pfx
    run: always
    ignore_error: true
    set: [u]
    shopt: [globstar]
    platforms: [linux, darwin]
    env: {E1: v}
    vars: {LV: w}
    requires: {vars: []}
    sources: ['*.nothing']
    generates: ['*.gen']
    status: ['false']
    preconditions: [{sh: 'true', msg: m}]
    deps: [t1]
    cmds:
      - task: t1
      - task: ':r1'
      - echo "O|A.t2|$PWD|{{.IV}}"
  default:
    cmds:
      - echo "O|A.default|$PWD|{{.IV}}"
  t4:
    watch: true
    cmds:
      - echo "O|A.t4|$PWD|{{.IV}}"
  'x:own':
    cmds:
      - echo "O|A.x:own|$PWD|{{.IV}}"
`,
	"B": `  t1:
    cmds:
      - echo "O|B.t1|$PWD|{{.IV}}"
  t3:
    deps: [t1]
    cmds:
      - echo "O|B.t3|$PWD|{{.IV}}"
`,
	"C": `  c1:
    cmds:
      - task: ':r1'
      - echo "O|C.c1|$PWD|{{.IV}}"
  default:
    cmds:
      - echo "O|C.default|$PWD|{{.IV}}"
`,
	"D": `  d1:
    cmds:
      - echo "O|D.d1|$PWD|{{.IV}}"
`,
}

func relPath(from, to string) string {
	r, _ := filepath.Rel("/"+fileDir[from], "/"+fileDir[to])
	if !strings.HasPrefix(r, ".") {
		r = "./" + r
	}
	return r
}

func writeTree(root string, tree map[string][]mInc, clash bool) {
	for f, d := range fileDir {
		dir := filepath.Join(root, d)
		os.MkdirAll(filepath.Join(dir, "sub"), 0o755)
		var b strings.Builder
		b.WriteString("version: '3'\nsilent: true\n")
		if f == "C" {
			b.WriteString("vars:\n  CV: {sh: 'pwd # c'}\n")
		}
		if f == "A" || f == "B" {
			// both siblings define SV: the merge order decides which value the tree ends up with
			fmt.Fprintf(&b, "vars:\n  SV: from-%s\n", f)
		}
		if incs := tree[f]; len(incs) > 0 {
			b.WriteString("includes:\n")
			for _, inc := range incs {
				target := relPath(f, inc.File) + "/" + fileName[inc.File]
				if inc.Missing == "optional" || inc.Missing == "required" {
					target = "./nope"
				}
				fmt.Fprintf(&b, "  %s:\n    taskfile: %s\n", inc.NS, target)
				if inc.Flatten {
					b.WriteString("    flatten: true\n")
				}
				if inc.Internal {
					b.WriteString("    internal: true\n")
				}
				if inc.Missing == "optional" || inc.Missing == "present-optional" {
					b.WriteString("    optional: true\n")
				}
				if inc.Alias != "" {
					fmt.Fprintf(&b, "    aliases: [%s]\n", inc.Alias)
				}
				if inc.Exclude != "" {
					fmt.Fprintf(&b, "    excludes: [%s]\n", inc.Exclude)
				}
				if inc.Dir != "" {
					fmt.Fprintf(&b, "    dir: ./%s\n", inc.Dir)
				}
				if inc.IV != "" {
					fmt.Fprintf(&b, "    vars: {IV: %s}\n", inc.IV)
				}
			}
		}
		b.WriteString("tasks:\n" + fileTasksYAML[f])
		if f == "R" && clash {
			b.WriteString("  'x:t1':\n    cmds:\n      - echo \"O|R.x:t1|$PWD|{{.IV}}\"\n")
		}
		os.WriteFile(filepath.Join(dir, fileName[f]), []byte(b.String()), 0o644)
	}
}

type mMismatch struct {
	Sig    string            `json:"sig"`
	Tree   map[string][]mInc `json:"tree"`
	What   string            `json:"what"`
	Files  map[string]string `json:"files,omitempty"`
}

func newExec(dir string, out *bytes.Buffer) *task.Executor {
	return task.NewExecutor(task.WithDir(dir), task.WithStdout(out), task.WithStderr(&bytes.Buffer{}), task.WithVersionCheck(false), task.WithSilent(true),
		task.WithTempDir(task.TempDir{Remote: filepath.Join(dir, ".task"), Fingerprint: filepath.Join(dir, ".task")}))
}

func safeSetup(e *task.Executor) (err error) {
	defer func() {
		if r := recover(); r != nil {
			err = fmt.Errorf("panic: %v", r)
		}
	}()
	return e.Setup()
}

func sortedCopy(xs []string) []string {
	c := append([]string(nil), xs...)
	sort.Strings(c)
	return c
}

// carried compares every field of the merged task with the standalone parse, except those the
// specification says change.
func carried(merged, orig *ast.Task) []string {
	skip := map[string]bool{"Task": true, "Aliases": true, "Deps": true, "Cmds": true, "Dir": true, "IncludeVars": true,
		"IncludedTaskfileVars": true, "Namespace": true, "Internal": true, "Location": true}
	var diffs []string
	mv, ov := reflect.ValueOf(*merged), reflect.ValueOf(*orig)
	for i := 0; i < mv.NumField(); i++ {
		name := mv.Type().Field(i).Name
		if skip[name] || !mv.Type().Field(i).IsExported() {
			continue
		}
		a, b := mv.Field(i).Interface(), ov.Field(i).Interface()
		if !reflect.DeepEqual(a, b) {
			// *ast.Vars holds mutexes/ordered maps: compare their entries
			if va, ok := a.(*ast.Vars); ok {
				vb := b.(*ast.Vars)
				if fmt.Sprint(va.ToCacheMap()) == fmt.Sprint(vb.ToCacheMap()) {
					continue
				}
			}
			diffs = append(diffs, name)
		}
	}
	return diffs
}

func dumpTable(e *task.Executor) string {
	var b strings.Builder
	for name, t := range e.Taskfile.Tasks.All(nil) {
		fmt.Fprintf(&b, "%s|%v|%v|%s|", name, t.Aliases, t.Internal, t.Dir)
		for _, d := range t.Deps {
			fmt.Fprintf(&b, "d:%s,", d.Task)
		}
		for _, c := range t.Cmds {
			fmt.Fprintf(&b, "c:%s:%s,", c.Task, c.Cmd)
		}
		if t.IncludeVars != nil {
			fmt.Fprintf(&b, "|iv:%v", t.IncludeVars.ToCacheMap())
		}
		if t.IncludedTaskfileVars != nil {
			for k, v := range t.IncludedTaskfileVars.All() {
				sh := ""
				if v.Sh != nil {
					sh = *v.Sh
				}
				fmt.Fprintf(&b, "|fv:%s=%v,sh=%s,dir=%s", k, v.Value, sh, v.Dir)
			}
		}
		b.WriteString("\n")
	}
	if e.Taskfile.Vars != nil {
		fmt.Fprintf(&b, "vars:%v\n", e.Taskfile.Vars.ToCacheMap())
	}
	// every compiled task: rendered command lines, deps and the variables the task sees
	for name := range e.Taskfile.Tasks.Keys(nil) {
		func() {
			defer func() { recover() }()
			ct, err := e.CompiledTask(&task.Call{Task: name})
			if err != nil || ct == nil {
				fmt.Fprintf(&b, "compiled %s: error %v\n", name, err)
				return
			}
			fmt.Fprintf(&b, "compiled %s dir=%s", name, ct.Dir)
			for _, c := range ct.Cmds {
				fmt.Fprintf(&b, " [%s|%s]", c.Task, c.Cmd)
			}
			for _, d := range ct.Deps {
				fmt.Fprintf(&b, " dep:%s", d.Task)
			}
			if ct.Vars != nil {
				m := ct.Vars.ToCacheMap()
				keys := make([]string, 0, len(m))
				for k := range m {
					if k == "TASK_EXE" || k == "TASK_VERSION" {
						continue
					}
					keys = append(keys, k)
				}
				sort.Strings(keys)
				for _, k := range keys {
					if k == strings.ToUpper(k) && len(k) > 3 && !strings.HasPrefix(k, "IV") && !strings.HasPrefix(k, "CV") && !strings.HasPrefix(k, "LV") {
						if _, env := os.LookupEnv(k); env {
							continue // inherited process environment
						}
					}
					fmt.Fprintf(&b, " %s=%v", k, m[k])
				}
			}
			b.WriteString("\n")
		}()
	}
	return b.String()
}

func evalMerge(c mCase, loads int) (ms []mMismatch, unstable *mMismatch) {
	root, err := os.MkdirTemp("/dev/shm", "mg")
	if err != nil {
		return
	}
	defer os.RemoveAll(root)
	root, _ = filepath.EvalSymlinks(root)
	writeTree(root, c.Tree, c.Clash)
	mm := func(sig, what string) { ms = append(ms, mMismatch{Sig: sig, Tree: c.Tree, What: what}) }
	var out bytes.Buffer
	e := newExec(root, &out)
	err = safeSetup(e)
	if len(c.Errs) > 0 {
		if err == nil {
			mm("error-not-reported", fmt.Sprintf("expected one of %v, Setup succeeded", c.Errs))
			return
		}
		code := 1
		if te, ok := err.(taskerrors.TaskError); ok {
			code = te.Code()
		}
		ok := false
		for _, x := range c.Errs {
			if x == code {
				ok = true
			}
		}
		if strings.HasPrefix(err.Error(), "panic") {
			mm("panic", err.Error())
		} else if !ok {
			mm(fmt.Sprintf("wrong-error-code-%d", code), fmt.Sprintf("expected one of %v, got %d: %v", c.Errs, code, err))
		}
		return
	}
	if err != nil {
		mm("unexpected-error", err.Error())
		return
	}
	// C09: repeated loads give the same table
	first := dumpTable(e)
	for k := 1; k < loads; k++ {
		runtime.GOMAXPROCS([]int{1, 2, 4, 16}[k%4])
		var o2 bytes.Buffer
		e2 := newExec(root, &o2)
		if err := safeSetup(e2); err != nil {
			unstable = &mMismatch{Sig: "load-result-varies", Tree: c.Tree, What: "a later load failed: " + err.Error()}
			break
		}
		if d := dumpTable(e2); d != first {
			unstable = &mMismatch{Sig: "load-result-varies", Tree: c.Tree, What: "load 0:\n" + first + "\nload " + fmt.Sprint(k) + ":\n" + d}
			break
		}
	}
	runtime.GOMAXPROCS(runtime.NumCPU())
	// the table
	want := map[string]mEntry{}
	for _, x := range c.Table {
		want[x.Name] = x
	}
	got := map[string]*ast.Task{}
	for name, t := range e.Taskfile.Tasks.All(nil) {
		got[name] = t
	}
	for name := range want {
		if got[name] == nil {
			mm("task-missing", "callable "+name+" is not in the merged table")
		}
	}
	for name := range got {
		if _, ok := want[name]; !ok {
			mm("task-unexpected", "merged table has "+name)
		}
	}
	standalone := map[string]*task.Executor{}
	for name, w := range want {
		t := got[name]
		if t == nil {
			continue
		}
		if !reflect.DeepEqual(sortedCopy(t.Aliases), sortedCopy(w.Aliases)) {
			mm("aliases", fmt.Sprintf("%s: aliases %v, expected %v", name, t.Aliases, w.Aliases))
		}
		if t.Internal != w.Internal {
			mm("internal", fmt.Sprintf("%s: internal=%v expected %v", name, t.Internal, w.Internal))
		}
		origin := fmt.Sprintf("O|%s.%s|", w.File, w.Task)
		body := ""
		var deps, calls []string
		// a reference with a leading ":" resolves to the root task of that name
		for _, d := range t.Deps {
			deps = append(deps, strings.TrimPrefix(d.Task, ":"))
		}
		for _, cm := range t.Cmds {
			if cm.Task != "" {
				calls = append(calls, strings.TrimPrefix(cm.Task, ":"))
			} else {
				body += cm.Cmd
			}
		}
		if !strings.Contains(body, origin) {
			mm("wrong-definition", fmt.Sprintf("%s carries commands %q, expected those of %s.%s", name, body, w.File, w.Task))
		}
		if !reflect.DeepEqual(deps, w.Deps) && !(len(deps) == 0 && len(w.Deps) == 0) {
			mm("deps-target", fmt.Sprintf("%s: deps %v, expected %v", name, deps, w.Deps))
		}
		if !reflect.DeepEqual(calls, w.Calls) && !(len(calls) == 0 && len(w.Calls) == 0) {
			mm("call-target", fmt.Sprintf("%s: task calls %v, expected %v", name, calls, w.Calls))
		}
		// attributes carried over
		if w.File != "R" {
			se := standalone[w.File]
			if se == nil {
				var so bytes.Buffer
				se = newExec(filepath.Join(root, fileDir[w.File]), &so)
				// standalone parse of the defining file without its own includes
				if err := safeSetupNoIncludes(se, filepath.Join(root, fileDir[w.File], fileName[w.File])); err == nil {
					standalone[w.File] = se
				} else {
					se = nil
				}
			}
			if se != nil {
				if ot, ok := se.Taskfile.Tasks.Get(w.Task); ok {
					if d := carried(t, ot); len(d) > 0 {
						mm("attribute-lost:"+strings.Join(d, ","), fmt.Sprintf("%s differs from its definition %s.%s in %v", name, w.File, w.Task, d))
					}
				}
			}
		}
	}
	// run every callable name and alias
	for name, w := range want {
		if got[name] == nil {
			continue
		}
		names := append([]string{name}, w.Aliases...)
		dangling := false
		for _, ref := range append(append([]string{}, w.Deps...), w.Calls...) {
			if _, ok := want[ref]; !ok {
				dangling = true // refers to a task the tree excludes: nothing is specified about running it
			}
		}
		if dangling || got[name].Watch {
			continue // a watch: true task would start watching; it is only compared structurally
		}
		for _, call := range names {
			out.Reset()
			e3 := newExec(root, &out)
			if err := safeSetup(e3); err != nil {
				break
			}
			err := func() (err error) {
				defer func() {
					if r := recover(); r != nil {
						err = fmt.Errorf("panic: %v", r)
					}
				}()
				return e3.Run(context.Background(), &task.Call{Task: call})
			}()
			if contains(w.Ambiguous, call) {
				if err == nil {
					mm("ambiguous-alias-ran", call+" names several tasks and one of them ran")
				}
				continue
			}
			if w.Internal {
				if err == nil {
					mm("internal-callable", call+" ran although internal")
				}
				continue
			}
			if err != nil {
				mm("run-failed", fmt.Sprintf("%s: %v", call, err))
				continue
			}
			lines := strings.Split(strings.TrimSpace(out.String()), "\n")
			last := lines[len(lines)-1]
			wantDir := root
			if len(w.Dir) == 2 {
				wantDir = filepath.Join(root, fileDir[w.Dir[0]], w.Dir[1])
			}
			wantLine := fmt.Sprintf("O|%s.%s|%s|%s", w.File, w.Task, wantDir, w.IV)
			if last != wantLine {
				f := strings.Split(last, "|")
				sig := "run-output"
				if len(f) == 4 {
					switch {
					case f[1] != w.File+"."+w.Task:
						sig = "runs-wrong-task"
					case f[2] != wantDir:
						sig = "working-directory"
					case f[3] != w.IV:
						sig = "include-vars"
					}
				}
				mm(sig, fmt.Sprintf("%s printed %q, expected %q", call, last, wantLine))
			}
			// targets of deps and calls ran (their origin markers precede)
			for _, ref := range append(append([]string{}, w.Deps...), w.Calls...) {
				tw, ok := want[ref]
				if !ok {
					continue
				}
				marker := fmt.Sprintf("O|%s.%s|", tw.File, tw.Task)
				found := false
				for _, l := range lines[:len(lines)-1] {
					if strings.HasPrefix(l, marker) {
						found = true
					}
				}
				if !found {
					mm("reference-bound-to-wrong-task", fmt.Sprintf("%s: reference %s should run %s.%s; output %q", call, ref, tw.File, tw.Task, lines))
				}
			}
		}
	}
	return
}

// safeSetupNoIncludes parses one file alone: a copy without its includes section.
func safeSetupNoIncludes(e *task.Executor, file string) error {
	b, err := os.ReadFile(file)
	if err != nil {
		return err
	}
	s := string(b)
	if i := strings.Index(s, "includes:\n"); i >= 0 {
		j := strings.Index(s, "tasks:\n")
		s = s[:i] + s[j:]
	}
	tmp, err := os.MkdirTemp("/dev/shm", "sa")
	if err != nil {
		return err
	}
	defer os.RemoveAll(tmp)
	os.WriteFile(filepath.Join(tmp, "Taskfile.yml"), []byte(s), 0o644)
	e.Options(task.WithDir(tmp))
	return safeSetup(e)
}

func runMergeCases(tier string) ([]mCase, int64, error) {
	maxOpt := 1
	if tier == "thorough" {
		maxOpt = 2
	}
	cfg := fmt.Sprintf("SPECIFICATION Spec\nCONSTANT MaxOptions = %d\nCONSTRAINT Emit\nCHECK_DEADLOCK FALSE\n", maxOpt)
	r := tlc.Run(tlc.Opts{SpecDir: SpecDir, Extra: map[string]string{"Gen.cfg": cfg}, Module: "Merge", Config: "Gen.cfg", Workers: runtime.NumCPU(), Timeout: 40 * time.Minute})
	if !r.OK {
		return nil, 0, fmt.Errorf("TLC did not complete: %s", tailS(r.Out, 2000))
	}
	cs, err := parseMerge(r.Out)
	return cs, r.Distinct, err
}

// CheckMerge serves C08 (namespaced copies) and C09 (deterministic loading).
func CheckMerge(prop, tier string) int {
	t0 := time.Now()
	rp := rep.NewReporter(prop)
	kf := rep.LoadFindings()
	cases, states, err := runMergeCases(tier)
	if err != nil {
		fmt.Println("ERROR:", err)
		return 2
	}
	loads := 1
	if prop == "C09" {
		loads = 6
		if tier != "thorough" {
			// determinism is observed on every second tree in the quick tier (C08 covers all of them structurally)
			var sel []mCase
			for i, c := range cases {
				if (i+int(rep.Seed()))%2 == 0 {
					sel = append(sel, c)
				}
			}
			cases = sel
		}
		if tier == "thorough" {
			loads = 6
		}
	}
	var mu sync.Mutex
	var all []mMismatch
	var unst []mMismatch
	// sequential over cases when GOMAXPROCS is varied (process-wide); parallel otherwise
	workers := runtime.NumCPU()
	if prop == "C09" {
		workers = 1
		if tier == "thorough" {
			// several trees at a time; every worker keeps changing GOMAXPROCS (process-wide), which only adds
			// scheduling noise to the others
			workers = 8
		}
	}
	ch := make(chan mCase, 64)
	var wg sync.WaitGroup
	for w := 0; w < workers; w++ {
		wg.Add(1)
		go func() {
			defer wg.Done()
			for c := range ch {
				ms, u := evalMerge(c, loads)
				mu.Lock()
				all = append(all, ms...)
				if u != nil {
					unst = append(unst, *u)
				}
				mu.Unlock()
			}
		}()
	}
	for _, c := range cases {
		ch <- c
	}
	close(ch)
	wg.Wait()
	report := all
	if prop == "C09" {
		report = unst
	}
	seen := map[string]int{}
	for _, m := range report {
		seen[m.Sig]++
		if seen[m.Sig] > 1 {
			continue
		}
		if f := kf.Open(prop, m.Sig); f != nil {
			rp.KnownFinding(f)
			continue
		}
		path := rep.WriteReplay(prop, m)
		rp.Note("violation %s/%s: %s\n  tree: %+v", prop, m.Sig, m.What, m.Tree)
		rp.Violation(path)
	}
	rule := "TLC enumerates every include tree of the universe in Merge.tla (root includes up to two of the files A/B/C under namespaces x/y, A and B may include C, C may include A (cycle); every include option flatten/internal/optional-missing/required-missing/aliases/excludes/dir/vars, at most MaxOptions non-default options per tree) and computes the expected callable table Exp(root); the driver writes the files, loads them with the real Executor and compares names, aliases, origin, internal, deps/call targets, all remaining task attributes (reflection against the standalone parse), and runs every callable name and alias (origin marker, working directory, include variable, which referenced tasks ran)"
	if prop == "C09" {
		rule = "the same include trees as C08; each is loaded " + fmt.Sprint(loads) + " times in one process under GOMAXPROCS 1/2/4/16 and the canonical dump of the merged table (order, aliases, directories, deps, commands, include vars, global vars) must be identical"
	}
	ev := rep.Evidence{PropertyID: prop, Tier: tier, Seed: rep.Seed(), Level: "model_checking",
		Coverage: map[string]any{"states": states, "transitions": states, "traces_validated_against_impl": len(cases) * loads,
			"samples": []any{map[string]any{"tree": cases[len(cases)/2].Tree, "expected_table": cases[len(cases)/2].Table}},
			"evaluations": len(cases) * loads, "distinct_nontrivial": len(cases), "rule": rule, "mismatch_signatures": seen, "exhaustive": true},
		Assumptions: []string{"fixed files R/A/B/C with fixed task lists; options vary per include statement", "at most MaxOptions (1 quick, 2 thorough) non-default include options per tree"},
		WallS: time.Since(t0).Seconds(), Violations: rp.Violations}
	ev.Write()
	fmt.Printf("%s %s: %d include trees, %d mismatches %v, %d violation(s), %.1fs\n", prop, tier, len(cases), len(report), seen, rp.Violations, time.Since(t0).Seconds())
	if rp.Violations > 0 {
		return 1
	}
	return 0
}

func contains(xs []string, x string) bool {
	for _, y := range xs {
		if y == x {
			return true
		}
	}
	return false
}
