package loadfam

import (
	"bytes"
	"context"
	"fmt"
	"os"
	"os/exec"
	"path/filepath"
	"runtime"
	"strings"
	"sync"
	"time"

	"verifharness/rep"
	"verifharness/tlaval"
	"verifharness/tlc"
)

var taskBin = rep.Root + "/.work/bin/task"

type vCase struct {
	Cfg map[string]any
	Exp string
}

func varDef(kind, site, name string) string {
	switch kind {
	case "lit":
		return fmt.Sprintf("%s: %s", name, site)
	case "tmpl":
		return fmt.Sprintf("%s: '{{.%s}}+%s'", name, name, site)
	case "sh":
		return fmt.Sprintf("%s: {sh: 'echo %s-sh'}", name, site)
	case "ref":
		return fmt.Sprintf("%s: {ref: 'printf \"%%s+%s-ref\" (default \"\" .%s)'}", name, site, name)
	}
	return ""
}

func block(indent, key string, defs ...string) string {
	var ds []string
	for _, d := range defs {
		if d != "" {
			ds = append(ds, d)
		}
	}
	if len(ds) == 0 {
		return ""
	}
	s := indent + key + ":\n"
	for _, d := range ds {
		s += indent + "  " + d + "\n"
	}
	return s
}

type vMismatch struct {
	Sig   string         `json:"sig"`
	Cfg   map[string]any `json:"cfg"`
	Want  string         `json:"want"`
	Got   string         `json:"got"`
	Files map[string]string `json:"files"`
	Cmd   string         `json:"cmd"`
}

func evalVar(c vCase) *vMismatch {
	dir, err := os.MkdirTemp("/dev/shm", "vr")
	if err != nil {
		return nil
	}
	defer os.RemoveAll(dir)
	s := func(k string) string { return tlaval.Str(c.Cfg[k]) }
	b := func(k string) bool { return tlaval.Bool(c.Cfg[k]) }
	files := map[string]string{}
	var args []string
	env := os.Environ()
	envClean := env[:0]
	for _, e := range env {
		if !strings.HasPrefix(e, "N=") && !strings.HasPrefix(e, "E=") && !strings.HasPrefix(e, "TASK_X_") {
			envClean = append(envClean, e)
		}
	}
	env = envClean
	var want = c.Exp
	probe := ""
	if s("k") == "var" {
		inc := s("loc") == "inc"
		target := "      - echo \"GOT={{.N}}|{{.G2}}\"\n"
		taskVars := block("    ", "vars", varDef(s("task"), "task", "N"))
		callVars := ""
		if s("call") == "lit" {
			callVars = "        vars: {N: call}\n"
		}
		root := "version: '3'\nsilent: true\n" + block("", "vars", varDef(s("global"), "global", "N"), "G2: '{{.N}}-g2'")
		root += "includes:\n  inc:\n    taskfile: ./inc\n"
		if s("incstmt") == "lit" {
			root += "    vars: {N: incstmt}\n"
		}
		root += "tasks:\n"
		callee := "target"
		if inc {
			callee = "inc:target"
		}
		switch s("via") {
		case "dep":
			root += "  entry:\n    deps:\n      - task: " + callee + "\n" + callVars
		case "defer":
			cv := ""
			if s("call") == "lit" {
				cv = ", vars: {N: call}"
			}
			root += "  entry:\n    cmds:\n      - defer: {task: " + callee + cv + "}\n      - 'true'\n"
		default:
			root += "  entry:\n    cmds:\n      - task: " + callee + "\n" + callVars
		}
		if !inc {
			root += "  target:\n" + taskVars + "    cmds:\n" + target
		}
		incf := "version: '3'\nsilent: true\n" + block("", "vars", varDef(s("incfile"), "incfile", "N")) + "tasks:\n"
		if inc {
			incf += "  target:\n" + taskVars + "    cmds:\n" + target
		} else {
			incf += "  other:\n    cmds:\n      - echo other\n"
		}
		files["Taskfile.yml"], files["inc/Taskfile.yml"] = root, incf
		args = []string{"entry"}
		if s("cli") == "lit" {
			args = append(args, "N=cli")
		}
		if s("os") == "lit" {
			env = append(env, "N=os")
		}
		probe = "GOT="
	} else {
		root := "version: '3'\nsilent: true\n"
		if k := s("genv"); k != "none" {
			root += "env: {" + varDef(k, "genv", "E") + "}\n"
		}
		if b("evar") {
			root += "vars: {E: var-e}\n"
		}
		if g := s("gdot"); g != "none" {
			root += "dotenv: ['.genv1', '.genv2']\n"
			files[".genv1"], files[".genv2"] = "OTHER=1\n", "OTHER=2\n"
			if g == "first" || g == "both" {
				files[".genv1"] = "E=gdot1\n"
			}
			if g == "second" || g == "both" {
				files[".genv2"] = "E=gdot2\n"
			}
		}
		root += "tasks:\n  target:\n"
		if k := s("tenv"); k != "none" {
			root += "    env: {" + varDef(k, "tenv", "E") + "}\n"
		}
		if g := s("tdot"); g != "none" {
			root += "    dotenv: ['.tenv1', '.tenv2']\n"
			files[".tenv1"], files[".tenv2"] = "OTHER=1\n", "OTHER=2\n"
			if g == "first" || g == "both" {
				files[".tenv1"] = "E=tdot1\n"
			}
			if g == "second" || g == "both" {
				files[".tenv2"] = "E=tdot2\n"
			}
		}
		root += "    cmds:\n      - echo \"GOT=$E\"\n"
		files["Taskfile.yml"] = root
		args = []string{"target"}
		switch s("os") {
		case "set":
			env = append(env, "E=os")
		case "empty":
			env = append(env, "E=")
		}
		if b("experiment") {
			env = append(env, "TASK_X_ENV_PRECEDENCE=1")
		}
		probe = "GOT="
	}
	for name, content := range files {
		p := filepath.Join(dir, name)
		os.MkdirAll(filepath.Dir(p), 0o755)
		os.WriteFile(p, []byte(content), 0o644)
	}
	ctx, cancel := context.WithTimeout(context.Background(), 20*time.Second)
	defer cancel()
	cmd := exec.CommandContext(ctx, taskBin, args...)
	cmd.Dir = dir
	cmd.Env = env
	cmd.Cancel = func() error { return cmd.Process.Kill() }
	var out bytes.Buffer
	cmd.Stdout, cmd.Stderr = &out, &out
	err = cmd.Run()
	got := "?" + strings.TrimSpace(out.String())
	for _, ln := range strings.Split(out.String(), "\n") {
		if strings.HasPrefix(ln, probe) {
			got = strings.TrimPrefix(ln, probe)
		}
	}
	if err != nil && !strings.HasPrefix(got, "?") {
		got = "?exit:" + err.Error() + " " + got
	}
	if strings.HasSuffix(want, "|?") { // the specification leaves the second probe open
		want = strings.TrimSuffix(want, "|?")
		if i := strings.LastIndex(got, "|"); i >= 0 {
			got = got[:i]
		}
	}
	if got == want {
		return nil
	}
	sig := "value"
	if s("k") == "env" {
		sig = fmt.Sprintf("env:experiment=%v", b("experiment"))
	} else {
		// which site's value was seen instead
		sig = fmt.Sprintf("var:loc=%s:want-from=%s:got=%s", s("loc"), lastSite(want), lastSite(got))
		if s("loc") == "root" && strings.Contains(got, "incfile") {
			sig = "var:root-task-sees-vars-of-included-taskfile"
		}
	}
	return &vMismatch{Sig: sig, Cfg: c.Cfg, Want: want, Got: got, Files: files, Cmd: "task " + strings.Join(args, " ")}
}

func lastSite(v string) string {
	if strings.HasPrefix(v, "?") {
		return "error"
	}
	if i := strings.LastIndex(v, "+"); i >= 0 {
		v = v[i+1:]
	}
	v = strings.TrimSuffix(v, "-sh")
	if v == "" {
		return "empty"
	}
	return v
}

func CheckC10(tier string) int {
	t0 := time.Now()
	rp := rep.NewReporter("C10")
	kf := rep.LoadFindings()
	r := tlc.Run(tlc.Opts{SpecDir: SpecDir, Module: "Vars", Config: "Vars.cfg", Workers: runtime.NumCPU(), Timeout: 10 * time.Minute})
	if !r.OK {
		fmt.Println("ERROR: TLC did not complete:", tailS(r.Out, 2000))
		return 2
	}
	var cases []vCase
	for _, ln := range strings.Split(r.Out, "\n") {
		ln = strings.TrimSpace(ln)
		if !strings.HasPrefix(ln, `"CASE|`) {
			continue
		}
		v, err := tlaval.Parse(strings.TrimPrefix(tlaval.Unquote(ln), "CASE|"))
		if err != nil {
			fmt.Println("ERROR:", err)
			return 2
		}
		m := tlaval.Rec(v)
		cases = append(cases, vCase{Cfg: tlaval.Rec(m["cfg"]), Exp: tlaval.Str(m["exp"])})
	}
	if tier == "quick" {
		// every env case, and the variable cases with stride 3 (seeded offset)
		var sel []vCase
		off := int(rep.Seed()) % 3
		for i, c := range cases {
			if tlaval.Str(c.Cfg["k"]) == "env" || (i+off)%3 == 0 {
				sel = append(sel, c)
			}
		}
		cases = sel
	}
	var mu sync.Mutex
	var ms []*vMismatch
	ch := make(chan vCase, 64)
	var wg sync.WaitGroup
	for w := 0; w < runtime.NumCPU(); w++ {
		wg.Add(1)
		go func() {
			defer wg.Done()
			for c := range ch {
				if m := evalVar(c); m != nil {
					mu.Lock()
					ms = append(ms, m)
					mu.Unlock()
				}
			}
		}()
	}
	for _, c := range cases {
		ch <- c
	}
	close(ch)
	wg.Wait()
	seen := map[string]int{}
	for _, m := range ms {
		seen[m.Sig]++
		if seen[m.Sig] > 1 {
			continue
		}
		if f := kf.Open("C10", m.Sig); f != nil {
			rp.KnownFinding(f)
			continue
		}
		path := rep.WriteReplay("C10", m)
		rp.Note("violation C10/%s: cfg %v: %s printed %q, expected %q", m.Sig, m.Cfg, m.Cmd, m.Got, m.Want)
		rp.Violation(path)
	}
	ev := rep.Evidence{PropertyID: "C10", Tier: tier, Seed: rep.Seed(), Level: "model_checking",
		Coverage: map[string]any{"states": r.Distinct, "transitions": r.Distinct, "traces_validated_against_impl": len(cases),
			"samples": []any{map[string]any{"cfg": cases[len(cases)/2].Cfg, "expected": cases[len(cases)/2].Exp}},
			"evaluations": len(cases), "distinct_nontrivial": len(cases),
			"rule": "TLC enumerates every combination of definition sites for a variable N (os, global, cli, include statement, included Taskfile, call, task) x value kinds (literal, template of the lower sites, sh) for a task in the root file and in an included file, and every subset of the five environment sites x the env-precedence experiment, with the expected value from Vars.tla; each case is a CLI run printing {{.N}} / $E (quick: all env cases, every third variable case)",
			"mismatch_signatures": seen, "exhaustive": tier == "thorough"},
		Assumptions: []string{"one variable name; template kinds only at the task and global sites; call and include-statement values are literals", "nested includes and ref: values not covered"},
		WallS: time.Since(t0).Seconds(), Violations: rp.Violations}
	ev.Write()
	fmt.Printf("C10 %s: %d cases, %d mismatches %v, %d violation(s), %.1fs\n", tier, len(cases), len(ms), seen, rp.Violations, time.Since(t0).Seconds())
	if rp.Violations > 0 {
		return 1
	}
	return 0
}
