package loadfam

import (
	"bytes"
	"context"
	"fmt"
	"os"
	"os/exec"
	"path/filepath"
	"runtime"
	"strings"
	"sync"
	"time"

	"verifharness/tlaval"
	"verifharness/tlc"
)

var locNames = []string{"Taskfile.yml", "taskfile.yaml", "Taskfile.dist.yml"}

func levelDir(root string, l int) string {
	return filepath.Join(append([]string{root}, []string{"L1", "L2", "L3"}[:l]...)...)
}

// GrowLocate: the Locate.tla cases against the CLI (specification growth beyond the listed properties).
func GrowLocate() int {
	t0 := time.Now()
	r := tlc.Run(tlc.Opts{SpecDir: SpecDir, Module: "Locate", Config: "Locate.cfg", Workers: runtime.NumCPU(), Timeout: 10 * time.Minute})
	if !r.OK {
		fmt.Println("ERROR: TLC did not complete:", tailS(r.Out, 2000))
		return 2
	}
	type lc struct {
		files      [3][]int
		cwd        int
		fk         string
		fl, fn     int
		found      bool
		level, nam int
	}
	var cases []lc
	for _, ln := range strings.Split(r.Out, "\n") {
		ln = strings.TrimSpace(ln)
		if !strings.HasPrefix(ln, `"CASE|`) {
			continue
		}
		v, err := tlaval.Parse(strings.TrimPrefix(tlaval.Unquote(ln), "CASE|"))
		if err != nil {
			fmt.Println("ERROR:", err)
			return 2
		}
		m := tlaval.Rec(v)
		var c lc
		fs := tlaval.Seq(m["files"])
		for l := 0; l < 3 && l < len(fs); l++ {
			for _, x := range tlaval.Seq(fs[l]) {
				c.files[l] = append(c.files[l], tlaval.Int(x))
			}
		}
		c.cwd = tlaval.Int(m["cwd"])
		f := tlaval.Rec(m["flag"])
		c.fk, c.fl, c.fn = tlaval.Str(f["k"]), tlaval.Int(f["l"]), tlaval.Int(f["n"])
		e := tlaval.Rec(m["exp"])
		c.found, c.level, c.nam = tlaval.Bool(e["found"]), tlaval.Int(e["level"]), tlaval.Int(e["name"])
		cases = append(cases, c)
	}
	var mu sync.Mutex
	bad := 0
	var firstBad string
	ch := make(chan lc, 64)
	var wg sync.WaitGroup
	for w := 0; w < runtime.NumCPU(); w++ {
		wg.Add(1)
		go func() {
			defer wg.Done()
			for c := range ch {
				root, err := os.MkdirTemp("/dev/shm", "lo")
				if err != nil {
					continue
				}
				real, _ := filepath.EvalSymlinks(root)
				for l := 1; l <= 3; l++ {
					d := levelDir(real, l)
					os.MkdirAll(d, 0o755)
					for _, n := range c.files[l-1] {
						body := fmt.Sprintf("version: '3'\nsilent: true\ntasks:\n  default:\n    cmds:\n      - echo \"USED|L%d/%s|$PWD\"\n", l, locNames[n-1])
						os.WriteFile(filepath.Join(d, locNames[n-1]), []byte(body), 0o644)
					}
				}
				var args []string
				switch c.fk {
				case "dir":
					args = []string{"--dir", levelDir(real, c.fl)}
				case "tfdir":
					args = []string{"--taskfile", levelDir(real, c.fl)}
				case "tffile":
					args = []string{"--taskfile", filepath.Join(levelDir(real, c.fl), locNames[c.fn-1])}
				}
				ctx, cancel := context.WithTimeout(context.Background(), 20*time.Second)
				cmd := exec.CommandContext(ctx, taskBin, args...)
				cmd.Dir = levelDir(real, c.cwd)
				cmd.Cancel = func() error { return cmd.Process.Kill() }
				var out bytes.Buffer
				cmd.Stdout, cmd.Stderr = &out, &out
				err = cmd.Run()
				cancel()
				code := 0
				if ee, ok := err.(*exec.ExitError); ok {
					code = ee.ExitCode()
				}
				got := ""
				for _, ln := range strings.Split(out.String(), "\n") {
					if strings.HasPrefix(ln, "USED|") {
						got = ln
					}
				}
				want := ""
				if c.found {
					want = fmt.Sprintf("USED|L%d/%s|%s", c.level, locNames[c.nam-1], levelDir(real, c.level))
				}
				okc := (c.found && got == want && code == 0) || (!c.found && got == "" && code != 0)
				if !okc {
					mu.Lock()
					bad++
					if firstBad == "" {
						firstBad = fmt.Sprintf("files=%v cwd=L%d flag=%s/%d/%d: want %q, got %q (exit %d): %s", c.files, c.cwd, c.fk, c.fl, c.fn, strings.ReplaceAll(want, real, "ROOT"), strings.ReplaceAll(got, real, "ROOT"), code, strings.TrimSpace(out.String()))
					}
					mu.Unlock()
				}
				os.RemoveAll(root)
			}
		}()
	}
	for _, c := range cases {
		ch <- c
	}
	close(ch)
	wg.Wait()
	fmt.Printf("grow-locate: %d configurations from Locate.tla against the CLI, %d disagree, %.1fs\n", len(cases), bad, time.Since(t0).Seconds())
	if bad > 0 {
		fmt.Println("first disagreement:", firstBad)
		return 1
	}
	return 0
}
