package outfam

import (
	"fmt"
	"time"

	"verifharness/probe"
	"verifharness/rep"
	"verifharness/tlc"
)

// SelfTest: a real stream of a grouped scenario is clean for the monitor (OutputEval) and a behaviour of Output.tla
// (OutputTrace); corrupted streams (a block torn in two writes, a block dropped, a block written twice, a line
// moved into the other block) are flagged and / or rejected.
func SelfTest() int {
	OpenKFs = rep.LoadFindings().OpenKFsOf("out")
	s := Scenario{Mode: Mode{Style: "group", Begin: true, End: true}, Cmds: []Cmd{{ID: "a", Chunks: chunkings("a")[3]}, {ID: "b", Chunks: chunkings("b")[1], Fail: true}}}
	r := runOne(s, &probe.PrefixChooser{})
	if (r.Err != "" && r.Err[:4] != "run:") || len(r.Writes) == 0 {
		fmt.Println("ERROR: selftest could not record a stream:", r.Err)
		return 2
	}
	cp := func() [][]string {
		var o [][]string
		for _, w := range r.Writes {
			o = append(o, append([]string(nil), w...))
		}
		return o
	}
	type v struct {
		name string
		w    [][]string
	}
	vs := []v{{"genuine stream", cp()}}
	if w := cp(); len(w[0]) > 2 { // the first block arrives in two writes
		first := w[0]
		w = append([][]string{first[:1], first[1:]}, w[1:]...)
		vs = append(vs, v{"the first block arrives in two writes (torn)", w})
	}
	if w := cp(); len(w) > 1 {
		vs = append(vs, v{"the second block is lost", w[:1]})
	}
	if w := cp(); len(w) > 1 {
		vs = append(vs, v{"the first block is written twice", append([][]string{w[0]}, w...)})
	}
	if w := cp(); len(w) > 1 && len(w[0]) > 2 && len(w[1]) > 2 {
		x := w[0][1]
		w[0] = append(w[0][:1], w[0][2:]...)
		w[1] = append([]string{w[1][0], x}, w[1][1:]...)
		vs = append(vs, v{"a line of the first command sits in the second block", w})
	}
	var trs []Trace
	for k, x := range vs {
		trs = append(trs, Trace{ID: fmt.Sprintf("v%d", k), Sc: 1, Writes: x.w})
	}
	data := DataModule([]Scenario{s}, trs)
	evr := tlc.Run(tlc.Opts{SpecDir: SpecDir, Extra: map[string]string{"OutData.tla": data}, Module: "OutputEval", Config: "OutputEval.cfg", Workers: 1, Timeout: 5 * time.Minute})
	verd := map[string]string{}
	for _, ln := range tlc.Printed(evr.Out, "VERDICT") {
		if m := verdictRe.FindStringSubmatch(ln); m != nil {
			verd[m[1]] = m[2]
		}
	}
	cf := tlc.Run(tlc.Opts{SpecDir: SpecDir, Extra: map[string]string{"OutData.tla": data}, Module: "OutputTrace", Config: "OutputTrace.cfg", Workers: 1, Timeout: 5 * time.Minute, DFS: true})
	conf := map[string]bool{}
	for _, ln := range tlc.Printed(cf.Out, "CONF") {
		if m := confRe.FindStringSubmatch(ln); m != nil {
			conf[m[1]] = true
		}
	}
	if len(verd) != len(trs) {
		fmt.Println("ERROR: TLC evaluated", len(verd), "of", len(trs), "streams:", tailS(evr.Out, 1500))
		return 2
	}
	ok := true
	for k, x := range vs {
		id := fmt.Sprintf("v%d", k)
		flagged, rejected := verd[id] != "ok", !conf[id]
		fmt.Printf("selftest out   %-55s monitor: %-8s model: %s\n", x.name+":", map[bool]string{true: "FLAGGED", false: "clean"}[flagged], map[bool]string{true: "REJECTED", false: "accepted"}[rejected])
		if k == 0 && (flagged || rejected) || k > 0 && !flagged && !rejected {
			ok = false
		}
	}
	if !ok {
		fmt.Println("ERROR: the binding self-test failed")
		return 2
	}
	return 0
}
