// Package outfam: grouped / prefixed output (C17) through the real Executor with a sink that
// holds every Write call; the harness decides which pending write returns next.
package outfam

import (
	"context"
	"encoding/json"
	"fmt"
	"io"
	"math/rand"
	"os"
	"path/filepath"
	"regexp"
	"runtime"
	"strings"
	"sync"
	"time"

	"github.com/go-task/task/v3"

	"verifharness/probe"
	"verifharness/rep"
	"verifharness/tlc"
)

var SpecDir = rep.Root + "/specs/out"

type Cmd struct {
	ID     string     `json:"id"`
	Chunks [][]string `json:"chunks"` // tokens: "a1" payload, "NL"
	Fail   bool       `json:"fail"`
}
type Mode struct {
	Style     string `json:"style"`
	Begin     bool   `json:"begin"`
	End       bool   `json:"end"`
	ErrorOnly bool   `json:"error_only"`
}
type Scenario struct {
	Cmds []Cmd `json:"cmds"`
	Mode Mode  `json:"mode"`
	// Cancel: the first command does not fail on its own account; it has written its output and is still running
	// (sleep) when a sibling without output fails, so that it ends by cancellation. For the specification that is
	// a failing command like any other: what it wrote is not lost.
	Cancel bool `json:"cancel,omitempty"`
}

func b2s(b bool) string {
	if b {
		return "TRUE"
	}
	return "FALSE"
}
func seqStr(xs []string) string {
	q := make([]string, len(xs))
	for i, x := range xs {
		q[i] = `"` + x + `"`
	}
	return "<<" + strings.Join(q, ", ") + ">>"
}
func (s Scenario) tla() string {
	var cs []string
	for _, c := range s.Cmds {
		var ch []string
		for _, k := range c.Chunks {
			ch = append(ch, seqStr(k))
		}
		cs = append(cs, fmt.Sprintf(`[id |-> "%s", chunks |-> <<%s>>, fail |-> %s]`, c.ID, strings.Join(ch, ", "), b2s(c.Fail)))
	}
	return fmt.Sprintf(`[cmds |-> <<%s>>, mode |-> [style |-> "%s", begin |-> %s, end |-> %s, errorOnly |-> %s]]`,
		strings.Join(cs, ", "), s.Mode.Style, b2s(s.Mode.Begin), b2s(s.Mode.End), b2s(s.Mode.ErrorOnly))
}

type Trace struct {
	ID     string     `json:"id"`
	Sc     int        `json:"sc"` // 1-based scenario index
	Writes [][]string `json:"writes"`
	Raw    []string   `json:"raw"`
}

var OpenKFs []string

func DataModule(scs []Scenario, trs []Trace) string {
	var b strings.Builder
	b.WriteString("---- MODULE OutData ----\nEXTENDS TLC, Sequences\n")
	q := make([]string, len(OpenKFs))
	for i, k := range OpenKFs {
		q[i] = `"` + k + `"`
	}
	b.WriteString("KFOpen == {" + strings.Join(q, ", ") + "}\nGenScenarios == <<\n")
	for i, s := range scs {
		if i > 0 {
			b.WriteString(",\n")
		}
		b.WriteString(" " + s.tla())
	}
	b.WriteString("\n>>\nTraces == <<\n")
	for i, t := range trs {
		if i > 0 {
			b.WriteString(",\n")
		}
		ws := make([]string, len(t.Writes))
		for k, w := range t.Writes {
			ws[k] = seqStr(w)
		}
		fmt.Fprintf(&b, ` [id |-> "%s", sc |-> %d, writes |-> <<%s>>]`, t.ID, t.Sc, strings.Join(ws, ", "))
	}
	b.WriteString("\n>>\n====\n")
	return b.String()
}

func (s Scenario) Taskfile() string {
	var b strings.Builder
	b.WriteString("version: '3'\nsilent: true\n")
	if s.Mode.Style == "group" {
		b.WriteString("output:\n  group:\n")
		if s.Mode.Begin {
			b.WriteString("    begin: 'B:{{.TASK}}'\n")
		}
		if s.Mode.End {
			b.WriteString("    end: 'E:{{.TASK}}'\n")
		}
		if s.Mode.ErrorOnly {
			b.WriteString("    error_only: true\n")
		}
		if !s.Mode.Begin && !s.Mode.End && !s.Mode.ErrorOnly {
			b.Reset()
			b.WriteString("version: '3'\nsilent: true\noutput: group\n")
		}
	} else {
		b.WriteString("output: prefixed\n")
	}
	b.WriteString("tasks:\n  root:\n    deps: [")
	for i, c := range s.Cmds {
		if i > 0 {
			b.WriteString(", ")
		}
		b.WriteString(c.ID)
	}
	if s.Cancel {
		b.WriteString(", zz")
	}
	b.WriteString("]\n")
	if s.Cancel {
		if s.Mode.Style == "group" {
			// the sibling fails once the first command has written everything (marker file)
			b.WriteString("  zz:\n    cmds:\n      - cmd: \"until [ -f .written ]; do sleep 0.05; done; exit 3\"\n")
		} else {
			// prefixed: the first write of the first command is held by the harness until everything else is
			// parked, i.e. until this sibling has failed - the order does not depend on timing
			b.WriteString("  zz:\n    cmds:\n      - cmd: \"sleep 0.3; exit 3\"\n")
		}
	}
	for ci, c := range s.Cmds {
		var parts []string
		for _, ch := range c.Chunks {
			txt := ""
			for _, t := range ch {
				if t == "NL" {
					txt += `\n`
				} else {
					txt += t
				}
			}
			parts = append(parts, "printf '"+txt+"'")
		}
		if s.Cancel && ci == 0 {
			parts = append(parts, "touch .written", "sleep 0.7") // outlives the failing sibling, which waits for the marker; ends by itself even where SIGINT is ignored
		} else if c.Fail {
			parts = append(parts, "exit 1")
		}
		if len(parts) == 0 {
			parts = append(parts, "true")
		}
		fmt.Fprintf(&b, "  %s:\n    cmds:\n      - cmd: \"%s\"\n        ignore_error: true\n", c.ID, strings.Join(parts, "; "))
	}
	return b.String()
}

// holdSink blocks every Write; arrivals are logged in order.
type holdSink struct {
	mu      sync.Mutex
	arrived []string
	pending map[int]chan struct{}
}

func (h *holdSink) Write(p []byte) (int, error) {
	ch := make(chan struct{})
	h.mu.Lock()
	idx := len(h.arrived)
	h.arrived = append(h.arrived, string(p))
	h.pending[idx] = ch
	h.mu.Unlock()
	<-ch
	return len(p), nil
}
func (h *holdSink) pendingIdx() []int {
	h.mu.Lock()
	defer h.mu.Unlock()
	var xs []int
	for i := range h.pending {
		xs = append(xs, i)
	}
	for i := 1; i < len(xs); i++ {
		for j := i; j > 0 && xs[j] < xs[j-1]; j-- {
			xs[j], xs[j-1] = xs[j-1], xs[j]
		}
	}
	return xs
}
func (h *holdSink) release(i int) {
	h.mu.Lock()
	ch := h.pending[i]
	delete(h.pending, i)
	h.mu.Unlock()
	if ch != nil {
		close(ch)
	}
}

var tokRe = regexp.MustCompile(`^(?:([BE]:[a-z])\n|([a-z][0-9])|(\n))`)

func tokenize(w string, ids map[string]bool) []string {
	switch {
	case w == "[":
		return []string{"["}
	case w == "] ":
		return []string{"] "}
	case ids[w]:
		return []string{"P:" + w}
	}
	var out []string
	for len(w) > 0 {
		m := tokRe.FindStringSubmatch(w)
		if m == nil {
			out = append(out, "?"+strings.ReplaceAll(strings.ReplaceAll(w, "\n", "~"), `"`, "'"))
			break
		}
		switch {
		case m[1] != "":
			out = append(out, m[1])
		case m[2] != "":
			out = append(out, m[2])
		default:
			out = append(out, "NL")
		}
		w = w[len(m[0]):]
	}
	return out
}

type runResult struct {
	Writes [][]string
	Raw    []string
	Taken  []int
	Alts   []int
	Err    string
}

// runOne executes the scenario; choices: index into the sorted pending list at every step.
func runOne(s Scenario, ch probe.Chooser) runResult {
	var res runResult
	dir, err := os.MkdirTemp("/dev/shm", "out")
	if err != nil {
		res.Err = err.Error()
		return res
	}
	defer os.RemoveAll(dir)
	os.WriteFile(filepath.Join(dir, "Taskfile.yml"), []byte(s.Taskfile()), 0o644)
	sink := &holdSink{pending: map[int]chan struct{}{}}
	e := task.NewExecutor(task.WithDir(dir), task.WithStdout(sink), task.WithStderr(io.Discard), task.WithColor(false), task.WithVersionCheck(false),
		task.WithTempDir(task.TempDir{Remote: filepath.Join(dir, ".task"), Fingerprint: filepath.Join(dir, ".task")}))
	if err := e.Setup(); err != nil {
		res.Err = "setup: " + err.Error()
		return res
	}
	done := make(chan struct{})
	var runErr error
	go func() { defer close(done); runErr = e.Run(context.Background(), &task.Call{Task: "root"}) }()
	step := 0
	for {
		if !probe.WaitQuiescent(20 * time.Second) {
			res.Err = "no quiescence"
			break
		}
		select {
		case <-done:
		default:
		}
		p := sink.pendingIdx()
		if len(p) == 0 {
			select {
			case <-done:
			case <-time.After(30 * time.Millisecond):
				if len(sink.pendingIdx()) == 0 {
					select {
					case <-done:
					default:
						if probe.WaitQuiescent(5*time.Second) && len(sink.pendingIdx()) == 0 {
							select {
							case <-done:
							default:
								res.Err = "deadlock"
							}
						} else {
							continue
						}
					}
				} else {
					continue
				}
			}
			break
		}
		names := make([]string, len(p))
		for i := range p {
			names[i] = fmt.Sprint(p[i])
		}
		k := ch.Choose(step, names)
		step++
		sink.release(p[k])
		if step > 500 {
			res.Err = "too many steps"
			break
		}
	}
	if runErr != nil && res.Err == "" {
		res.Err = "run: " + runErr.Error()
	}
	ids := map[string]bool{}
	for _, c := range s.Cmds {
		ids[c.ID] = true
	}
	sink.mu.Lock()
	for _, w := range sink.arrived {
		res.Raw = append(res.Raw, w)
		if w == "" {
			continue // zero-length write: not part of the stream
		}
		res.Writes = append(res.Writes, tokenize(w, ids))
	}
	sink.mu.Unlock()
	if pc, ok := ch.(*probe.PrefixChooser); ok {
		res.Taken, res.Alts = pc.Taken, pc.Alts
	}
	return res
}

// explore: DFS over release orders (cap), plus seeded random orders.
func explore(s Scenario, dfs int, seeds []uint64) ([]runResult, bool) {
	var out []runResult
	var prefix []int
	exhausted := false
	for n := 0; n < dfs; n++ {
		pc := &probe.PrefixChooser{Prefix: prefix}
		r := runOne(s, pc)
		out = append(out, r)
		if r.Err != "" && !strings.HasPrefix(r.Err, "run:") {
			break
		}
		prefix = probe.NextPrefix(r.Taken, r.Alts)
		if prefix == nil {
			exhausted = true
			break
		}
	}
	for _, sd := range seeds {
		out = append(out, runOne(s, &probe.RandChooser{S: sd*2654435761 + 7}))
	}
	return out, exhausted
}

// ---- scenario generation
func chunkings(id string) [][][]string {
	p := func(k int) string { return fmt.Sprintf("%s%d", id, k) }
	return [][][]string{
		{{p(1), "NL"}},
		{{p(1)}, {p(2), "NL"}},
		{{p(1), "NL", p(2)}},
		{{p(1), "NL"}, {p(2), "NL"}},
		{{p(1)}},
		{},
		{{p(1), "NL", p(2), "NL", p(3)}},
		{{p(1)}, {"NL"}, {p(2)}},
		{{}},                      // one zero-length write and nothing else
		{{}, {p(1), "NL"}},        // a zero-length write first
		{{p(1), "NL"}, {}, {p(2)}}, // a zero-length write between two chunks
	}
}

func Scenarios(r *rand.Rand, n int) []Scenario {
	modes := []Mode{
		{Style: "group"}, {Style: "group", Begin: true, End: true}, {Style: "group", Begin: true}, {Style: "group", End: true},
		{Style: "group", ErrorOnly: true}, {Style: "group", Begin: true, End: true, ErrorOnly: true}, {Style: "prefixed"},
	}
	var scs []Scenario
	// fixed core: every mode with two commands and the first chunkings
	for _, m := range modes {
		scs = append(scs, Scenario{Mode: m, Cmds: []Cmd{{ID: "a", Chunks: chunkings("a")[1]}, {ID: "b", Chunks: chunkings("b")[2], Fail: true}}})
	}
	// zero-length writes: a command whose only write is empty (succeeding and failing), one that starts with an
	// empty write, one with an empty write between two chunks, next to a command with ordinary output
	for _, m := range modes {
		scs = append(scs, Scenario{Mode: m, Cmds: []Cmd{{ID: "a", Chunks: chunkings("a")[8]}, {ID: "b", Chunks: chunkings("b")[9], Fail: true}}})
		scs = append(scs, Scenario{Mode: m, Cmds: []Cmd{{ID: "a", Chunks: chunkings("a")[8], Fail: true}, {ID: "b", Chunks: chunkings("b")[10]}}})
	}
	// cancellation: what a command has written is not lost when it is cancelled by a failing sibling
	for _, m := range modes {
		// only the cancelled command and the failing sibling: a second ordinary command could itself be cancelled
		// before it has started, which would make its (legitimately) missing output look lost
		scs = append(scs, Scenario{Mode: m, Cancel: true, Cmds: []Cmd{{ID: "a", Chunks: chunkings("a")[2], Fail: true}}})
	}
	for len(scs) < n {
		m := modes[r.Intn(len(modes))]
		nc := 2 + r.Intn(2)
		var cs []Cmd
		for i := 0; i < nc; i++ {
			id := string(rune('a' + i))
			all := chunkings(id)
			cs = append(cs, Cmd{ID: id, Chunks: all[r.Intn(len(all))], Fail: r.Intn(3) == 0})
		}
		scs = append(scs, Scenario{Mode: m, Cmds: cs})
	}
	return scs
}

var verdictRe = regexp.MustCompile(`^"VERDICT\|([^|]*)\|([^"]*)"$`)
var confRe = regexp.MustCompile(`^<<"CONF", "([^"]*)">>$`)

func Check(tier string) int {
	t0 := time.Now()
	seed := rep.Seed()
	rp := rep.NewReporter("C17")
	kf := rep.LoadFindings()
	OpenKFs = kf.OpenKFsOf("out")
	nsc, dfs, nseeds := 44, 40, 2
	if tier == "thorough" {
		nsc, dfs, nseeds = 150, 400, 6
	}
	r := rand.New(rand.NewSource(seed*977 + 5))
	scs := Scenarios(r, nsc)

	// MC: the design keeps C17 for every interleaving of these scenarios
	mc := tlc.Run(tlc.Opts{SpecDir: SpecDir, Extra: map[string]string{"OutData.tla": DataModule(scs, nil)}, Module: "OutputMC", Config: "OutputMC.cfg",
		Workers: runtime.NumCPU(), Timeout: 10 * time.Minute})
	if !mc.OK {
		fmt.Println(tailS(mc.Out, 4000))
		fmt.Printf("ERROR: TLC reports %q on the DESIGN model of the output writers (model-level, exit 2)\n", mc.Violation)
		return 2
	}
	// real runs (sequential per scenario: quiescence detection is process-wide, so one scenario at a time per process)
	var traces []Trace
	exh := 0
	herr := 0
	for i, s := range scs {
		var seeds []uint64
		for k := 0; k < nseeds; k++ {
			seeds = append(seeds, uint64(seed)*131+uint64(i)*17+uint64(k)+1)
		}
		d := dfs
		if s.Cancel { // each run lasts more than a second: a handful of release orders
			d, seeds = 5, nil
		}
		rs, ex := explore(s, d, seeds)
		if ex {
			exh++
		}
		for k, rr := range rs {
			if rr.Err != "" && !strings.HasPrefix(rr.Err, "run:") {
				herr++
				fmt.Printf("ERROR: scenario %d run %d: %s\n", i, k, rr.Err)
				continue
			}
			traces = append(traces, Trace{ID: fmt.Sprintf("s%d.r%d", i, k), Sc: i + 1, Writes: rr.Writes, Raw: rr.Raw})
		}
	}
	if len(traces) == 0 {
		fmt.Println("ERROR: no run could be recorded (exit 2)")
		return 2
	}
	data := DataModule(scs, traces)
	evr := tlc.Run(tlc.Opts{SpecDir: SpecDir, Extra: map[string]string{"OutData.tla": data}, Module: "OutputEval", Config: "OutputEval.cfg", Workers: 1, Timeout: 10 * time.Minute})
	verd := map[string]string{}
	for _, ln := range tlc.Printed(evr.Out, "VERDICT") {
		if m := verdictRe.FindStringSubmatch(ln); m != nil {
			verd[m[1]] = m[2]
		}
	}
	if len(verd) != len(traces) {
		fmt.Printf("ERROR: TLC evaluated %d of %d streams\n%s\n", len(verd), len(traces), tailS(evr.Out, 3000))
		return 2
	}
	cf := tlc.Run(tlc.Opts{SpecDir: SpecDir, Extra: map[string]string{"OutData.tla": data}, Module: "OutputTrace", Config: "OutputTrace.cfg", Workers: 1, Timeout: 10 * time.Minute, DFS: true})
	conf := map[string]bool{}
	for _, ln := range tlc.Printed(cf.Out, "CONF") {
		if m := confRe.FindStringSubmatch(ln); m != nil {
			conf[m[1]] = true
		}
	}
	seen := map[string]int{}
	distinct := map[string]bool{}
	var samples []any
	byID := map[string]Trace{}
	for _, t := range traces {
		byID[t.ID] = t
		distinct[fmt.Sprint(t.Sc, t.Writes)] = true
		if len(samples) < 3 {
			samples = append(samples, map[string]any{"scenario": scs[t.Sc-1], "writes_in_arrival_order": t.Raw})
		}
		v := verd[t.ID]
		if v == "ok" {
			continue
		}
		seen[v]++
		if seen[v] > 1 {
			continue
		}
		if f := kf.Open("C17", v); f != nil {
			rp.KnownFinding(f)
			continue
		}
		path := rep.WriteReplay("C17", map[string]any{"property": "C17", "sig": v, "scenario": scs[t.Sc-1], "taskfile": scs[t.Sc-1].Taskfile(), "writes": t.Raw, "tokens": t.Writes})
		rp.Note("violation C17/%s: %s mode %+v: stream %q", v, t.ID, scs[t.Sc-1].Mode, t.Raw)
		rp.Violation(path)
	}
	nonconf := 0
	if len(conf) < len(traces) {
		for _, t := range traces {
			if !conf[t.ID] {
				nonconf++
				if nonconf <= 3 {
					rp.Note("NONCONFORMANCE: write sequence %q of scenario %d is not produced by Output.tla (or validation stopped before it)", t.Raw, t.Sc)
				}
			}
		}
	}
	ev := rep.Evidence{PropertyID: "C17", Tier: tier, Seed: seed, Level: "model_checking",
		Coverage: map[string]any{"states": mc.Distinct, "transitions": mc.Generated, "traces_validated_against_impl": len(traces), "samples": samples,
			"evaluations": len(traces), "distinct_nontrivial": len(distinct),
			"rule": "scenarios: 2-3 commands run as parallel deps under output: group (+-begin, +-end, +-error_only) or prefixed, each command a sequence of printf built-ins realising a chunking (partial lines, no trailing newline, empty output, failing command); every Write arriving at Executor.Stdout is held and the harness enumerates the orders in which held writes return (depth-first, capped) plus seeded random orders; distinct = different scenario or arrival sequence",
			"scenarios": len(scs), "scenarios_with_all_release_orders": exh, "conformance_accepted": len(conf), "conformance_rejected_or_unvalidated": nonconf,
			"violation_signatures": seen, "harness_errors": herr, "exhaustive": false},
		Assumptions: []string{"writes are observed at Executor.Stdout; a command's own writes into its group/prefix writer are in-process and ordered", "colour disabled", "up to 3 concurrent commands, up to 3 chunks each"},
		WallS: time.Since(t0).Seconds(), Violations: rp.Violations}
	ev.Write()
	fmt.Printf("C17 %s: %d scenarios, MC %d states ok, %d real streams (%d distinct), conformance %d/%d, %d violation(s) %v, %.1fs\n", tier, len(scs), mc.Distinct, len(traces), len(distinct), len(conf), len(traces), rp.Violations, seen, time.Since(t0).Seconds())
	if rp.Violations > 0 {
		return 1
	}
	return 0
}

func tailS(s string, n int) string {
	if len(s) > n {
		return s[len(s)-n:]
	}
	return s
}

var _ = json.Marshal
