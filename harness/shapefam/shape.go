// Package shapefam: C16 - documents of the wrong shape never crash Task.
package shapefam

import (
	"bufio"
	"bytes"
	"context"
	"encoding/json"
	"fmt"
	"math/rand"
	"os"
	"os/exec"
	"path/filepath"
	"runtime"
	"sort"
	"strings"
	"sync"
	"syscall"
	"time"

	"github.com/go-task/task/v3"

	"verifharness/rep"
	"verifharness/tlaval"
	"verifharness/tlc"
)

var SpecDir = rep.Root + "/specs/shape"
var TaskBin = rep.Root + "/.work/bin/task"

type Dev struct{ Pos, Kind string }
type Doc struct {
	Devs     []Dev  `json:"devs"`
	Term     string `json:"term"`
	Trailing bool   `json:"trailing"`
}

var kindYAML = map[string]string{
	"null": "null", "empty-string": "''", "scalar": "abc", "int": "42", "bool": "true", "empty-seq": "[]", "seq-scalar": "[abc]",
	"seq-null": "[null]", "seq-map": "[{k: v}]", "empty-map": "{}", "map-unknown": "{unknown_key: 1}", "map-null-value": "{sh: null}",
	"nested-seq": "[[a]]", "tilde": "~", "template": "'{{.NOPE | nofunc}}'",
	"hash-string": "'#x'", "blank-string": `"\t"`, "unset-var-string": "'$VERIF_UNSET_VARIABLE'", "bad-glob-string": `'a[{"'`,
	"tilde-user-string": "'~nosuchuser_verif/x'", "multiline-string": `"a\nb"`,
}

// Render builds the Taskfile: the baseline with the deviations substituted.
func Render(d Doc) string {
	o := map[string]string{}
	for _, dv := range d.Devs {
		o[dv.Pos] = kindYAML[dv.Kind]
	}
	p := func(pos, def string) string {
		if v, ok := o[pos]; ok {
			return v
		}
		return def
	}
	forMatrix := p("cmd.for", "{matrix: "+p("for.matrix", "{X: "+p("for.matrixrow", "[1, 2]")+"}")+"}")
	cmds := "[" + strings.Join([]string{
		p("cmd.value", "{cmd: "+p("cmd.cmd", "echo hi")+"}"),
		"{task: " + p("cmd.task", "other") + ", vars: " + p("cmd.vars", "{A: b}") + "}",
		"{defer: " + p("cmd.defer", "echo d") + "}",
		"{for: " + forMatrix + ", cmd: 'echo {{.ITEM}}'}",
		"{for: " + p("for.list", "[a, b]") + ", cmd: 'echo {{.ITEM}}'}",
		"{for: {var: " + p("for.var", "GV") + "}, cmd: 'echo {{.ITEM}}'}",
		"{for: {var: GV, matrix: " + p("for.varmatrix", "null") + "}, cmd: 'echo {{.ITEM}}'}",
		"{cmd: echo p, platforms: " + p("cmd.platforms", "[linux]") + ", set: " + p("cmd.set", "[e]") + "}",
	}, ", ") + "]"
	deps := "[" + p("dep.value", "{task: "+p("dep.task", "other")+", vars: "+p("dep.vars", "{A: b}")+"}") + ", {for: " + p("dep.for", "[x]") + ", task: other}]"
	taskMap := "{" + strings.Join([]string{
		"desc: " + p("task.desc", "d"), "label: " + p("task.label", "l"), "run: " + p("task.run", "always"),
		"dir: " + p("task.dir", "."), "prompt: " + p("task.prompt", "null"), "aliases: " + p("task.aliases", "[m]"),
		"platforms: " + p("task.platforms", "[linux]"), "dotenv: " + p("task.dotenv", "['.env']"),
		"vars: " + p("task.vars", "{TV: 1}"), "env: " + p("task.env", "{TE: 1}"),
		"sources: " + p("task.sources", "["+p("source.value", "'*.go'")+", {exclude: "+p("source.exclude", "x.go")+"}]"),
		"generates: " + p("task.generates", "['*.out']"), "status: " + p("task.status", "['false']"),
		"preconditions: " + p("task.preconditions", "["+p("precondition.value", "{sh: "+p("precondition.sh", "'true'")+"}")+"]"),
		"requires: " + p("task.requires", "{vars: "+p("requires.vars", "["+p("requires.var", "{name: GV, enum: "+p("requires.enum", "[lit]")+"}")+"]")+"}"),
		"deps: " + p("task.deps", deps), "cmds: " + p("task.cmds", cmds),
	}, ", ") + "}"
	lines := []string{
		"version: " + p("root.version", "'3'"),
		"output: " + p("root.output", "{group: "+p("output.group", "{begin: b}")+"}"),
		"silent: " + p("root.silent", "false"),
		"method: " + p("root.method", "checksum"),
		"run: " + p("root.run", "always"),
		"interval: " + p("root.interval", "1s"),
		"set: " + p("root.set", "[e]"),
		"dotenv: " + p("root.dotenv", "['.env']"),
		"vars: " + p("root.vars", "{GV: "+p("var.value", "lit")+", GS: {sh: "+p("var.sh", "'echo x'")+"}, GR: {ref: "+p("var.ref", ".GV")+"}, GM: {map: "+p("var.map", "{a: 1}")+"}}"),
		"env: " + p("root.env", "{GE: e}"),
		"includes: " + p("root.includes", "{inc: "+p("include.value", "{taskfile: "+p("include.taskfile", "./inc")+", vars: "+p("include.vars", "{IV: x}")+", aliases: "+p("include.aliases", "[ia]")+", excludes: "+p("include.excludes", "[default, zz]")+", dir: "+p("include.dir", ".")+"}")+"}"),
		"tasks:",
		"  main: " + p("task.value", taskMap),
		"  other: {cmds: [echo other]}",
		// wildcard names: text on both sides of the star, two stars, a star at either end
		"  'w-*-w': {cmds: ['echo {{.MATCH}}']}",
		"  'a*a': {cmds: ['echo {{.MATCH}}']}",
		"  'x*y*z': {cmds: ['echo {{.MATCH}}']}",
		"  'p*': {cmds: ['echo {{.MATCH}}']}",
		"  '*q': {aliases: [qq], cmds: ['echo {{.MATCH}}']}",
	}
	if v, ok := o["root.tasks"]; ok {
		lines = append(lines[:11], "tasks: "+v)
	}
	term := map[string]string{"LF": "\n", "CRLF": "\r\n", "CR": "\r"}[d.Term]
	s := strings.Join(lines, term)
	if d.Trailing {
		s += term
	}
	return s
}

type Result struct {
	Idx    int    `json:"idx"`
	Panic  string `json:"panic,omitempty"`
	Stage  string `json:"stage,omitempty"`
	Stages int    `json:"stages"`
}

func guard(stage string, res *Result, f func()) {
	defer func() {
		if r := recover(); r != nil && res.Panic == "" {
			buf := make([]byte, 4096)
			n := runtime.Stack(buf, false)
			res.Panic = fmt.Sprintf("%v\n%s", r, buf[:n])
			res.Stage = stage
		}
	}()
	res.Stages++
	f()
}

// Exercise runs one document through the public API in this process.
func Exercise(idx int, content string) Result {
	res := Result{Idx: idx}
	dir, err := os.MkdirTemp("/dev/shm", "sh")
	if err != nil {
		return res
	}
	defer os.RemoveAll(dir)
	os.WriteFile(filepath.Join(dir, "Taskfile.yml"), []byte(content), 0o644)
	os.WriteFile(filepath.Join(dir, ".env"), []byte("DE=1\n"), 0o644)
	os.MkdirAll(filepath.Join(dir, "inc"), 0o755)
	os.WriteFile(filepath.Join(dir, "inc", "Taskfile.yml"), []byte("version: '3'\ntasks:\n  it: {cmds: [echo it]}\n  default: {cmds: [echo dflt]}\n"), 0o644)
	var out, errb bytes.Buffer
	e := task.NewExecutor(task.WithDir(dir), task.WithStdout(&out), task.WithStderr(&errb), task.WithDry(true), task.WithVersionCheck(true),
		task.WithTempDir(task.TempDir{Remote: filepath.Join(dir, ".task"), Fingerprint: filepath.Join(dir, ".task")}))
	var setupErr error
	guard("Setup", &res, func() { setupErr = e.Setup() })
	if setupErr != nil || res.Panic != "" || e.Taskfile == nil {
		return res
	}
	guard("ListTasks", &res, func() { e.ListTasks(task.ListOptions{ListAllTasks: true}) })
	guard("ListTaskNames", &res, func() { e.ListTaskNames(true) })
	guard("GetTaskList", &res, func() { e.GetTaskList() })
	guard("ToEditorOutput", &res, func() {
		if ts, err := e.GetTaskList(); err == nil {
			e.ToEditorOutput(ts, true)
		}
	})
	var names []string
	guard("names", &res, func() {
		for n := range e.Taskfile.Tasks.Keys(nil) {
			names = append(names, n)
		}
	})
	names = append(names, "nope", "m", "a(b", "inc:it", "ia:it",
		// requests around the wildcard names: shorter than prefix + suffix, empty star, overlapping, the pattern itself
		"w-w", "w--w", "w-1-w", "a", "aa", "aba", "xyz", "xz", "x1y2z", "p", "q", "pq", "*", "", ":", "a*a", "qq")
	for _, n := range names {
		n := n
		guard("GetTask:"+n, &res, func() { e.GetTask(&task.Call{Task: n}) })
		guard("FastCompiledTask:"+n, &res, func() { e.FastCompiledTask(&task.Call{Task: n}) })
		guard("CompiledTask:"+n, &res, func() { e.CompiledTask(&task.Call{Task: n}) })
		guard("Status:"+n, &res, func() {
			ctx, c := context.WithTimeout(context.Background(), 5*time.Second)
			defer c()
			e.Status(ctx, &task.Call{Task: n})
		})
		guard("Run-dry:"+n, &res, func() {
			ctx, c := context.WithTimeout(context.Background(), 5*time.Second)
			defer c()
			e.Run(ctx, &task.Call{Task: n})
		})
	}
	return res
}

// WorkerMain: JSON lines {idx, content} on stdin -> Result lines on stdout.
func WorkerMain() {
	in := bufio.NewReaderSize(os.Stdin, 1<<20)
	out := bufio.NewWriter(os.Stdout)
	dec := json.NewDecoder(in)
	for {
		var job struct {
			Idx     int
			Content string
		}
		if err := dec.Decode(&job); err != nil {
			return
		}
		fmt.Fprintf(out, "START %d\n", job.Idx)
		out.Flush()
		r := Exercise(job.Idx, job.Content)
		b, _ := json.Marshal(r)
		fmt.Fprintf(out, "RESULT %s\n", b)
		out.Flush()
	}
}

type outcome struct {
	Doc     Doc
	Content string
	Res     Result
	Crash   string
	Hang    bool
}

// runAll distributes the documents over worker processes; a document gets 20 s.
func runAll(docs []Doc) []outcome {
	outs := make([]outcome, len(docs))
	for i := range docs {
		outs[i].Doc = docs[i]
		outs[i].Content = Render(docs[i])
	}
	self, _ := os.Executable()
	queue := make(chan int, len(docs))
	for i := range docs {
		queue <- i
	}
	close(queue)
	var wg sync.WaitGroup
	for w := 0; w < runtime.NumCPU(); w++ {
		wg.Add(1)
		go func() {
			defer wg.Done()
			for {
				first, ok := <-queue
				if !ok {
					return
				}
				cmd := exec.Command(self, "worker-shape")
				cmd.Env = append(os.Environ(), "GOTRACEBACK=all")
				stdin, _ := cmd.StdinPipe()
				stdout, _ := cmd.StdoutPipe()
				var stderr bytes.Buffer
				cmd.Stderr = &stderr
				cmd.SysProcAttr = &syscall.SysProcAttr{Setpgid: true, Pdeathsig: syscall.SIGKILL}
				if cmd.Start() != nil {
					continue
				}
				rd := bufio.NewReaderSize(stdout, 1<<20)
				cur := first
				for {
					b, _ := json.Marshal(map[string]any{"Idx": cur, "Content": outs[cur].Content})
					stdin.Write(append(b, '\n'))
					resCh := make(chan *Result, 1)
					go func() {
						for {
							line, err := rd.ReadString('\n')
							if err != nil {
								resCh <- nil
								return
							}
							if strings.HasPrefix(line, "RESULT ") {
								var r Result
								if json.Unmarshal([]byte(line[7:]), &r) == nil {
									resCh <- &r
									return
								}
							}
						}
					}()
					alive := true
					select {
					case r := <-resCh:
						if r == nil {
							outs[cur].Crash = tail(stderr.String(), 4000)
							alive = false
						} else {
							outs[cur].Res = *r
						}
					case <-time.After(20 * time.Second):
						outs[cur].Hang = true
						syscall.Kill(-cmd.Process.Pid, syscall.SIGKILL)
						<-resCh
						alive = false
					}
					if !alive {
						break
					}
					next, ok := <-queue
					if !ok {
						break
					}
					cur = next
				}
				stdin.Close()
				syscall.Kill(-cmd.Process.Pid, syscall.SIGKILL)
				cmd.Wait()
			}
		}()
	}
	wg.Wait()
	return outs
}

func tail(s string, n int) string {
	if len(s) > n {
		return s[len(s)-n:]
	}
	return s
}

var documented = map[int]bool{0: true, 1: true, 50: true, 100: true, 101: true, 102: true, 103: true, 104: true, 105: true, 106: true, 107: true, 108: true, 109: true, 110: true,
	200: true, 201: true, 202: true, 203: true, 204: true, 205: true, 206: true, 207: true}

func cliExit(content string, args ...string) (int, string) {
	dir, err := os.MkdirTemp("/dev/shm", "shc")
	if err != nil {
		return 0, ""
	}
	defer os.RemoveAll(dir)
	os.WriteFile(filepath.Join(dir, "Taskfile.yml"), []byte(content), 0o644)
	os.WriteFile(filepath.Join(dir, ".env"), []byte("DE=1\n"), 0o644)
	os.MkdirAll(filepath.Join(dir, "inc"), 0o755)
	os.WriteFile(filepath.Join(dir, "inc", "Taskfile.yml"), []byte("version: '3'\ntasks:\n  it: {cmds: [echo it]}\n  default: {cmds: [echo dflt]}\n"), 0o644)
	ctx, cancel := context.WithTimeout(context.Background(), 20*time.Second)
	defer cancel()
	cmd := exec.CommandContext(ctx, TaskBin, args...)
	cmd.Dir = dir
	cmd.Cancel = func() error { return cmd.Process.Kill() }
	var out bytes.Buffer
	cmd.Stdout, cmd.Stderr = &out, &out
	err = cmd.Run()
	if ctx.Err() != nil {
		return -2, "timeout"
	}
	if err != nil {
		if ee, ok := err.(*exec.ExitError); ok {
			return ee.ExitCode(), out.String()
		}
		return -1, err.Error()
	}
	return 0, out.String()
}

func panicSig(p string) string {
	first := strings.SplitN(p, "\n", 2)[0]
	where := ""
	for _, ln := range strings.Split(p, "\n") {
		ln = strings.TrimSpace(ln)
		if strings.HasPrefix(ln, "github.com/go-task/task/v3") && !strings.Contains(ln, "shapefam") {
			where = strings.SplitN(strings.TrimPrefix(ln, "github.com/go-task/task/v3"), "(", 2)[0]
			break
		}
	}
	first = strings.Map(func(r rune) rune {
		if r >= '0' && r <= '9' {
			return -1
		}
		return r
	}, first)
	if len(first) > 60 {
		first = first[:60]
	}
	return "panic:" + strings.TrimSpace(where) + ":" + strings.TrimSpace(first)
}

func Check(tier string) int {
	t0 := time.Now()
	seed := rep.Seed()
	rp := rep.NewReporter("C16")
	kf := rep.LoadFindings()
	r := tlc.Run(tlc.Opts{SpecDir: SpecDir, Module: "Shape", Config: "Shape.cfg", Workers: runtime.NumCPU(), Timeout: 10 * time.Minute})
	if !r.OK {
		fmt.Println("ERROR: TLC did not complete:", tail(r.Out, 2000))
		return 2
	}
	var docs []Doc
	var positions, kinds []string
	for _, ln := range strings.Split(r.Out, "\n") {
		ln = strings.TrimSpace(ln)
		if strings.HasPrefix(ln, `"META|`) {
			v, err := tlaval.Parse(strings.TrimPrefix(tlaval.Unquote(ln), "META|"))
			if err == nil {
				m := tlaval.Rec(v)
				for _, x := range tlaval.Seq(m["positions"]) {
					positions = append(positions, tlaval.Str(x))
				}
				for _, x := range tlaval.Seq(m["kinds"]) {
					kinds = append(kinds, tlaval.Str(x))
				}
			}
		}
		if !strings.HasPrefix(ln, `"CASE|`) {
			continue
		}
		v, err := tlaval.Parse(strings.TrimPrefix(tlaval.Unquote(ln), "CASE|"))
		if err != nil {
			fmt.Println("ERROR:", err)
			return 2
		}
		m := tlaval.Rec(v)
		d := Doc{Term: tlaval.Str(m["term"]), Trailing: tlaval.Bool(m["trailing"])}
		for _, x := range tlaval.Seq(m["devs"]) {
			dm := tlaval.Rec(x)
			d.Devs = append(d.Devs, Dev{tlaval.Str(dm["pos"]), tlaval.Str(dm["kind"])})
		}
		docs = append(docs, d)
	}
	sort.Strings(positions)
	sort.Strings(kinds)
	nTLC := len(docs)
	// pairs of deviations, sampled from the specification's universe
	npairs := 1500
	if tier == "thorough" {
		npairs = 40000
	}
	rng := rand.New(rand.NewSource(seed*7 + 1))
	for i := 0; i < npairs && len(positions) > 1; i++ {
		p1, p2 := positions[rng.Intn(len(positions))], positions[rng.Intn(len(positions))]
		if p1 == p2 {
			continue
		}
		docs = append(docs, Doc{Devs: []Dev{{p1, kinds[rng.Intn(len(kinds))]}, {p2, kinds[rng.Intn(len(kinds))]}},
			Term: []string{"LF", "CRLF", "CR"}[rng.Intn(3)], Trailing: rng.Intn(2) == 0})
	}
	if tier == "quick" {
		// single deviations: all with LF+trailing, the other terminator variants with stride
		var sel []Doc
		for i, d := range docs {
			if i >= nTLC || (d.Term == "LF" && d.Trailing) || (i+int(seed))%4 == 0 {
				sel = append(sel, d)
			}
		}
		docs = sel
	}
	outs := runAll(docs)
	seen := map[string]int{}
	report := func(sig string, o outcome, detail string) {
		seen[sig]++
		if seen[sig] > 1 {
			return
		}
		if f := kf.Open("C16", sig); f != nil {
			rp.KnownFinding(f)
			return
		}
		path := rep.WriteReplay("C16", map[string]any{"property": "C16", "sig": sig, "doc": o.Doc, "taskfile": o.Content, "detail": detail})
		rp.Note("violation C16/%s: deviations %v terminator %s: %s", sig, o.Doc.Devs, o.Doc.Term, strings.SplitN(detail, "\n", 2)[0])
		rp.Violation(path)
	}
	stages := 0
	for _, o := range outs {
		stages += o.Res.Stages
		switch {
		case o.Hang:
			report("hang", o, "no result within 20 s")
		case o.Crash != "":
			report("crash:"+panicSig(o.Crash[strings.Index(o.Crash+"panic:", "panic:"):]), o, o.Crash)
		case o.Res.Panic != "":
			report(panicSig(o.Res.Panic), o, o.Res.Stage+": "+o.Res.Panic)
		}
	}
	// CLI leg: exit status in the documented set, for a sample
	ncli := 0
	for i, o := range outs {
		if i%9 != int(seed)%9 {
			continue
		}
		for _, args := range [][]string{{"main", "--dry"}, {"--list-all"}} {
			code, out := cliExit(o.Content, args...)
			ncli++
			if strings.Contains(out, "panic:") || strings.Contains(out, "goroutine 1 [") {
				report(panicSig(out[strings.Index(out, "panic:"):]), o, "CLI "+strings.Join(args, " ")+": "+tail(out, 3000))
			} else if !documented[code] {
				report(fmt.Sprintf("undocumented-exit-%d", code), o, "CLI "+strings.Join(args, " ")+": "+tail(out, 1000))
			}
		}
	}
	ev := rep.Evidence{PropertyID: "C16", Tier: tier, Seed: seed, Level: "exploration",
		Coverage: map[string]any{"states": r.Distinct, "transitions": r.Distinct, "traces_validated_against_impl": len(docs),
			"samples": []any{map[string]any{"doc": docs[len(docs)/3], "taskfile": Render(docs[len(docs)/3])}},
			"evaluations": len(docs), "distinct_nontrivial": len(docs),
			"rule": "TLC enumerates every document of Shape.tla with one deviation (64 schema positions x 15 YAML node kinds) x line terminator LF/CRLF/CR x trailing newline; pairs of deviations are sampled by the driver from the same universe; every document is written as the Taskfile of a small project and driven through Setup, ListTasks, ListTaskNames, GetTaskList, ToEditorOutput and, for every task name plus unknown / alias / metacharacter names, GetTask, FastCompiledTask, CompiledTask, Status and a dry Run, in a worker process (panic = recovered or process death, hang = 20 s); a sample also goes through the CLI (documented exit status)",
			"api_calls": stages, "cli_runs": ncli, "violation_signatures": seen, "exhaustive": false},
		Assumptions: []string{"shapes, not bytes: invalid UTF-8, anchors/aliases/merge keys, deep nesting and git URLs are outside the universe (DESIGN 8)", "commands are not executed (dry run)"},
		WallS: time.Since(t0).Seconds(), Violations: rp.Violations}
	ev.Write()
	fmt.Printf("C16 %s: %d documents (%d from TLC), %d API calls, %d CLI runs, %d violation(s) %v, %.1fs\n", tier, len(docs), nTLC, stages, ncli, rp.Violations, seen, time.Since(t0).Seconds())
	if rp.Violations > 0 {
		return 1
	}
	return 0
}
