// Package probe: blocking probe sink, goroutine-quiescence detector and release scheduler.
//
// Every generated shell command is `echo 'B|<id>'[; exit k]` executed by the embedded
// interpreter. The Sink is installed as Executor.Stdout: a write starting with "B|" is logged
// (Begin) under the sink mutex and then blocks until the scheduler releases it; the release is
// logged (End) under the same mutex before the channel is closed. The log is therefore a valid
// linearisation of command start / finish instants.
package probe

import (
	"fmt"
	"regexp"
	"runtime"
	"sort"
	"strings"
	"sync"
	"time"
)

type Event struct {
	Seq  int      `json:"seq"`
	E    string   `json:"e"`            // B, E, Q, R, DL, W
	ID   string   `json:"id,omitempty"` // probe line for B/E
	Set  []string `json:"set,omitempty"`
	Info string   `json:"info,omitempty"`
}

type Sink struct {
	mu      sync.Mutex
	seq     int
	log     []Event
	pending map[string]chan struct{}
	Prefix  string // lines starting with this block (default "B|")
	Raw     []string
}

func NewSink() *Sink { return &Sink{pending: map[string]chan struct{}{}, Prefix: "B|"} }

func (s *Sink) Write(p []byte) (int, error) {
	str := string(p)
	line := strings.TrimRight(str, "\n")
	if !strings.HasPrefix(line, s.Prefix) || strings.TrimSpace(line) == "" {
		if strings.TrimSpace(str) != "" {
			s.mu.Lock()
			s.Raw = append(s.Raw, str)
			s.mu.Unlock()
		}
		return len(p), nil
	}
	ch := make(chan struct{})
	s.mu.Lock()
	if _, dup := s.pending[line]; dup {
		// two simultaneous probes with the same identity: make the second distinguishable
		line = line + "#dup"
	}
	s.seq++
	s.log = append(s.log, Event{Seq: s.seq, E: "B", ID: line})
	s.pending[line] = ch
	s.mu.Unlock()
	<-ch
	return len(p), nil
}

// Gate blocks the calling goroutine at an internal scheduling point until released.
func (s *Sink) Gate(id string) {
	id = "G|" + id
	ch := make(chan struct{})
	s.mu.Lock()
	for {
		if _, dup := s.pending[id]; !dup {
			break
		}
		id += "#dup"
	}
	s.seq++
	s.log = append(s.log, Event{Seq: s.seq, E: "GB", ID: id})
	s.pending[id] = ch
	s.mu.Unlock()
	<-ch
}

// Pending returns the sorted list of currently blocked probes.
func (s *Sink) Pending() []string {
	s.mu.Lock()
	defer s.mu.Unlock()
	ids := make([]string, 0, len(s.pending))
	for id := range s.pending {
		ids = append(ids, id)
	}
	// gates (internal scheduling points) sort before probes: the default path lets the executor
	// settle internally before a command is allowed to finish
	sort.Slice(ids, func(i, j int) bool {
		gi, gj := strings.HasPrefix(ids[i], "G|"), strings.HasPrefix(ids[j], "G|")
		if gi != gj {
			return gi
		}
		return ids[i] < ids[j]
	})
	return ids
}

func (s *Sink) Release(id string) {
	s.mu.Lock()
	ch, ok := s.pending[id]
	if !ok {
		s.mu.Unlock()
		return
	}
	delete(s.pending, id)
	s.seq++
	kind := "E"
	if strings.HasPrefix(id, "G|") {
		kind = "GE"
	}
	s.log = append(s.log, Event{Seq: s.seq, E: kind, ID: id})
	s.mu.Unlock()
	close(ch)
}

func (s *Sink) Note(e Event) {
	s.mu.Lock()
	s.seq++
	e.Seq = s.seq
	s.log = append(s.log, e)
	s.mu.Unlock()
}

func (s *Sink) Log() []Event {
	s.mu.Lock()
	defer s.mu.Unlock()
	return append([]Event(nil), s.log...)
}

// ReleaseAll unblocks everything (used to let a finished/abandoned scenario drain).
func (s *Sink) ReleaseAll() {
	for _, id := range s.Pending() {
		s.Release(id)
	}
}

var hdr = regexp.MustCompile(`^goroutine (\d+) \[([^\]]+)\]:`)

var parked = map[string]bool{
	"chan receive": true, "chan send": true, "select": true, "semacquire": true,
	"sync.Cond.Wait": true, "sync.Mutex.Lock": true, "sync.RWMutex.RLock": true,
	"sync.RWMutex.Lock": true, "sync.WaitGroup.Wait": true, "chan receive (nil chan)": true,
	"select (no cases)": true,
}

// Markers are substrings identifying goroutines that belong to the system under test.
var Markers = []string{"github.com/go-task/task/v3", "mvdan.cc/sh", "golang.org/x/sync/errgroup"}

// Exclude are substrings identifying goroutines to ignore (the harness's own).
var Exclude = []string{"verifharness/probe.Quiescent", "verifharness/probe.WaitQuiescent"}

// Quiescent reports whether every goroutine of the system under test is parked.
func Quiescent() (bool, string) {
	buf := make([]byte, 4<<20)
	n := runtime.Stack(buf, true)
	for _, b := range strings.Split(string(buf[:n]), "\n\n") {
		sut := false
		for _, m := range Markers {
			if strings.Contains(b, m) {
				sut = true
				break
			}
		}
		if !sut {
			continue
		}
		skip := false
		for _, m := range Exclude {
			if strings.Contains(b, m) {
				skip = true
			}
		}
		if skip {
			continue
		}
		m := hdr.FindStringSubmatch(b)
		if m == nil {
			continue
		}
		st := m[2]
		if i := strings.Index(st, ","); i >= 0 {
			st = st[:i]
		}
		if st == "sleep" && strings.Contains(b, "DefaultExecHandler") {
			// the interpreter's kill timer of an external command that was interrupted: it sleeps for the kill
			// timeout and then signals a process that is long gone; it never touches the executor again
			continue
		}
		if !parked[st] {
			return false, st
		}
	}
	return true, ""
}

// WaitQuiescent waits until two consecutive samples are quiescent. It returns false on timeout.
func WaitQuiescent(timeout time.Duration) bool {
	deadline := time.Now().Add(timeout)
	okc := 0
	d := 200 * time.Microsecond
	for okc < 2 {
		time.Sleep(d)
		if q, _ := Quiescent(); q {
			okc++
		} else {
			okc = 0
			if d < 2*time.Millisecond {
				d *= 2
			}
		}
		if time.Now().After(deadline) {
			return false
		}
	}
	return true
}

// Chooser picks which of the pending probes is released at step k.
type Chooser interface {
	Choose(step int, pending []string) int
}

// PrefixChooser follows a vector of choices, then picks index 0; it records the alternatives seen
// so that the caller can enumerate all release orders depth-first (stateless search).
type PrefixChooser struct {
	Prefix []int
	Taken  []int
	Alts   []int
}

func (c *PrefixChooser) Choose(step int, pending []string) int {
	ch := 0
	if step < len(c.Prefix) {
		ch = c.Prefix[step]
		if ch >= len(pending) {
			ch = len(pending) - 1
		}
	}
	c.Taken = append(c.Taken, ch)
	c.Alts = append(c.Alts, len(pending))
	return ch
}

// NextPrefix computes the next choice vector in DFS order, or nil when the space is exhausted.
func NextPrefix(taken, alts []int) []int {
	for i := len(taken) - 1; i >= 0; i-- {
		if taken[i]+1 < alts[i] {
			n := append([]int(nil), taken[:i]...)
			return append(n, taken[i]+1)
		}
	}
	return nil
}

// RandChooser: seeded pseudo-random choice (xorshift).
type RandChooser struct{ S uint64 }

func (c *RandChooser) Choose(step int, pending []string) int {
	c.S ^= c.S << 13
	c.S ^= c.S >> 7
	c.S ^= c.S << 17
	return int(c.S % uint64(len(pending)))
}

// ScriptChooser releases probes following a preferred order of ids (e.g. from a TLC behaviour);
// an id that is not pending is skipped; falls back to index 0.
type ScriptChooser struct {
	Order []string
	pos   int
	Miss  int
}

func (c *ScriptChooser) Choose(step int, pending []string) int {
	for c.pos < len(c.Order) {
		want := c.Order[c.pos]
		for i, p := range pending {
			if p == want {
				c.pos++
				return i
			}
		}
		// wanted probe is not pending now: cannot follow here
		c.Miss++
		c.pos++
	}
	return 0
}

type Outcome struct {
	Returned bool
	Deadlock bool
	Timeout  bool
	Steps    int
}

// Drive releases blocked probes one at a time, waiting for quiescence in between, until done is
// closed (Run returned) or a deadlock is observed.
func Drive(s *Sink, done <-chan struct{}, ch Chooser, maxSteps int, snapshot bool) Outcome {
	var out Outcome
	for {
		if !WaitQuiescent(60 * time.Second) {
			out.Timeout = true
			return out
		}
		select {
		case <-done:
			out.Returned = true
			return out
		default:
		}
		ids := s.Pending()
		if len(ids) == 0 {
			// quiescent, Run not returned, nothing to release: confirm once more after a pause
			time.Sleep(20 * time.Millisecond)
			if !WaitQuiescent(60 * time.Second) {
				out.Timeout = true
				return out
			}
			select {
			case <-done:
				out.Returned = true
				return out
			default:
			}
			if len(s.Pending()) == 0 {
				s.Note(Event{E: "DL"})
				out.Deadlock = true
				return out
			}
			continue
		}
		if snapshot {
			gated := false
			for _, id := range ids {
				if strings.HasPrefix(id, "G|") {
					gated = true
				}
			}
			if !gated {
				s.Note(Event{E: "Q", Set: ids})
			}
		}
		if out.Steps >= maxSteps {
			out.Timeout = true
			return out
		}
		k := ch.Choose(out.Steps, ids)
		out.Steps++
		s.Release(ids[k])
	}
}

func (e Event) String() string { return fmt.Sprintf("%d %s %s %v", e.Seq, e.E, e.ID, e.Set) }
