// Package tlaval parses TLA+ values as printed by TLC's ToString: records, tuples, sets,
// strings, integers and booleans, into Go values (map[string]any, []any, Set, string, int, bool).
package tlaval

import (
	"fmt"
	"strconv"
	"strings"
)

// Set is a TLA+ set (elements in TLC's print order).
type Set []any

type parser struct {
	s string
	i int
}

func Parse(s string) (any, error) {
	p := &parser{s: s}
	v, err := p.value()
	if err != nil {
		return nil, err
	}
	p.ws()
	if p.i != len(p.s) {
		return nil, fmt.Errorf("trailing input at %d: %q", p.i, p.s[p.i:min(len(p.s), p.i+20)])
	}
	return v, nil
}

// Unquote turns the line TLC prints for PrintT(ToString(v)) – a quoted string with \" and \\ –
// back into the text of v.
func Unquote(line string) string {
	line = strings.TrimSpace(line)
	if len(line) >= 2 && line[0] == '"' && line[len(line)-1] == '"' {
		line = line[1 : len(line)-1]
	}
	var b strings.Builder
	for i := 0; i < len(line); i++ {
		if line[i] == '\\' && i+1 < len(line) {
			i++
			switch line[i] {
			case 'n':
				b.WriteByte('\n')
			case 't':
				b.WriteByte('\t')
			default:
				b.WriteByte(line[i])
			}
			continue
		}
		b.WriteByte(line[i])
	}
	return b.String()
}

func (p *parser) ws() {
	for p.i < len(p.s) && (p.s[p.i] == ' ' || p.s[p.i] == '\n' || p.s[p.i] == '\t') {
		p.i++
	}
}

func (p *parser) lit(x string) bool {
	p.ws()
	if strings.HasPrefix(p.s[p.i:], x) {
		p.i += len(x)
		return true
	}
	return false
}

func (p *parser) value() (any, error) {
	p.ws()
	if p.i >= len(p.s) {
		return nil, fmt.Errorf("unexpected end")
	}
	switch {
	case p.lit("<<"):
		var xs []any
		if p.lit(">>") {
			return xs, nil
		}
		for {
			v, err := p.value()
			if err != nil {
				return nil, err
			}
			xs = append(xs, v)
			if p.lit(">>") {
				return xs, nil
			}
			if !p.lit(",") {
				return nil, fmt.Errorf("expected , or >> at %d", p.i)
			}
		}
	case p.lit("{"):
		xs := Set{}
		if p.lit("}") {
			return xs, nil
		}
		for {
			v, err := p.value()
			if err != nil {
				return nil, err
			}
			xs = append(xs, v)
			if p.lit("}") {
				return xs, nil
			}
			if !p.lit(",") {
				return nil, fmt.Errorf("expected , or } at %d", p.i)
			}
		}
	case p.lit("["):
		m := map[string]any{}
		for {
			p.ws()
			j := p.i
			for p.i < len(p.s) && (p.s[p.i] == '_' || p.s[p.i] >= 'a' && p.s[p.i] <= 'z' || p.s[p.i] >= 'A' && p.s[p.i] <= 'Z' || p.s[p.i] >= '0' && p.s[p.i] <= '9') {
				p.i++
			}
			key := p.s[j:p.i]
			if !p.lit("|->") {
				return nil, fmt.Errorf("expected |-> at %d", p.i)
			}
			v, err := p.value()
			if err != nil {
				return nil, err
			}
			m[key] = v
			if p.lit("]") {
				return m, nil
			}
			if !p.lit(",") {
				return nil, fmt.Errorf("expected , or ] at %d", p.i)
			}
		}
	case p.s[p.i] == '"':
		p.i++
		var b strings.Builder
		for p.i < len(p.s) && p.s[p.i] != '"' {
			if p.s[p.i] == '\\' && p.i+1 < len(p.s) {
				p.i++
			}
			b.WriteByte(p.s[p.i])
			p.i++
		}
		p.i++
		return b.String(), nil
	case p.lit("TRUE"):
		return true, nil
	case p.lit("FALSE"):
		return false, nil
	default:
		j := p.i
		if p.s[p.i] == '-' {
			p.i++
		}
		for p.i < len(p.s) && p.s[p.i] >= '0' && p.s[p.i] <= '9' {
			p.i++
		}
		if j == p.i {
			return nil, fmt.Errorf("unexpected %q at %d", p.s[p.i], p.i)
		}
		n, _ := strconv.Atoi(p.s[j:p.i])
		return n, nil
	}
}

// helpers
func Str(v any) string {
	s, _ := v.(string)
	return s
}
func Bool(v any) bool {
	b, _ := v.(bool)
	return b
}
func Int(v any) int {
	n, _ := v.(int)
	return n
}
func Seq(v any) []any {
	switch x := v.(type) {
	case []any:
		return x
	case Set:
		return []any(x)
	}
	return nil
}
func Rec(v any) map[string]any {
	m, _ := v.(map[string]any)
	return m
}

// JoinSeq joins a sequence of strings.
func JoinSeq(v any, sep string) string {
	var parts []string
	for _, x := range Seq(v) {
		parts = append(parts, Str(x))
	}
	return strings.Join(parts, sep)
}
