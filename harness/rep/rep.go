// Package rep: evidence files, known findings, replay bundles, verdict lines.
package rep

import (
	"encoding/json"
	"fmt"
	"os"
	"path/filepath"
	"regexp"
	"strconv"
	"strings"
	"time"
)

// Root is the directory of the verification framework (VERIF_ROOT, set by run.sh; default /verif).
var Root = func() string {
	if r := os.Getenv("VERIF_ROOT"); r != "" {
		return r
	}
	return "/verif"
}()

type Finding struct {
	ID      string   `json:"id"`
	Sigs    []string `json:"sigs"`   // "<property>/<signature>" pairs this defect shows up as
	Status  string   `json:"status"` // open | fixed
	Commit  string   `json:"commit,omitempty"`
	KF      string   `json:"kf,omitempty"` // name of the deviation switch in the TLA+ model
	Family  string   `json:"family,omitempty"` // exec | fp | ...
	What    string   `json:"what"`
	Example any      `json:"example,omitempty"`
}

type Findings struct {
	Findings []Finding `json:"findings"`
	Fixed    []string  `json:"fixed_log,omitempty"`
}

func LoadFindings() Findings {
	var f Findings
	b, err := os.ReadFile(filepath.Join(Root, "known_findings.json"))
	if err == nil {
		json.Unmarshal(b, &f)
	}
	return f
}

// Open returns the open finding matching (property, sig), or nil.
func (f Findings) Open(prop, sig string) *Finding {
	for i := range f.Findings {
		x := &f.Findings[i]
		if x.Status != "open" {
			continue
		}
		for _, s := range x.Sigs {
			if s == prop+"/"+sig {
				return x
			}
			// an entry may be a regular expression over "<property>/<signature>"
			if strings.ContainsAny(s, "*+()[]|") {
				if re, err := regexp.Compile("^(?:" + s + ")$"); err == nil && re.MatchString(prop+"/"+sig) {
					return x
				}
			}
		}
	}
	return nil
}

// OpenKFsOf lists the deviation switches of one family's model that belong to open findings.
func (f Findings) OpenKFsOf(family string) []string {
	var out []string
	seen := map[string]bool{}
	for _, x := range f.Findings {
		if x.Status == "open" && x.KF != "" && x.Family == family {
			for _, k := range strings.Split(x.KF, ",") {
				if !seen[k] {
					seen[k] = true
					out = append(out, k)
				}
			}
		}
	}
	return out
}

// OpenKFs lists the model deviation switches of the findings that are still open.
func (f Findings) OpenKFs() []string {
	var out []string
	for _, x := range f.Findings {
		if x.Status == "open" && x.KF != "" && (x.Family == "" || x.Family == "exec") {
			out = append(out, x.KF)
		}
	}
	return out
}

type Evidence struct {
	PropertyID  string         `json:"property_id"`
	Tier        string         `json:"tier"`
	Seed        int64          `json:"seed"`
	Level       string         `json:"level"`
	Coverage    map[string]any `json:"coverage"`
	Assumptions []string       `json:"assumptions"`
	WallS       float64        `json:"wall_s"`
	Violations  int            `json:"violations"`
}

func (e *Evidence) Write() error {
	os.MkdirAll(filepath.Join(Root, "evidence"), 0o755)
	b, err := json.MarshalIndent(e, "", " ")
	if err != nil {
		return err
	}
	return os.WriteFile(filepath.Join(Root, "evidence", e.PropertyID+".json"), b, 0o644)
}

func Seed() int64 {
	if s := os.Getenv("VERIF_SEED"); s != "" {
		if v, err := strconv.ParseInt(s, 10, 64); err == nil {
			return v
		}
	}
	return 1
}

// WriteReplay stores a replay bundle and returns its path.
func WriteReplay(prop string, bundle any) string {
	dir := filepath.Join(Root, "replays")
	os.MkdirAll(dir, 0o755)
	for n := 1; ; n++ {
		p := filepath.Join(dir, fmt.Sprintf("%s-%d.json", prop, n))
		if _, err := os.Stat(p); err == nil && n < 200 {
			continue
		}
		b, _ := json.MarshalIndent(bundle, "", " ")
		os.WriteFile(p, b, 0o644)
		return p
	}
}

// Reporter collects verdict lines for one check run.
type Reporter struct {
	Prop       string
	Violations int
	Known      map[string]bool
	Start      time.Time
	Notes      []string
}

func NewReporter(prop string) *Reporter {
	return &Reporter{Prop: prop, Known: map[string]bool{}, Start: time.Now()}
}

func (r *Reporter) Violation(replay string) {
	r.Violations++
	fmt.Printf("VIOLATION property=%s replay=%s\n", r.Prop, replay)
}

func (r *Reporter) KnownFinding(f *Finding) {
	if r.Known[f.ID] {
		return
	}
	r.Known[f.ID] = true
	fmt.Printf("KNOWN-FINDING: property=%s [%s] %s\n", r.Prop, f.ID, f.What)
}

func (r *Reporter) Note(format string, a ...any) {
	s := fmt.Sprintf(format, a...)
	r.Notes = append(r.Notes, s)
	fmt.Println(s)
}

type Viol struct {
	Prop string `json:"prop"`
	Sig  string `json:"sig"`
}
