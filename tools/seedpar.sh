#!/bin/bash
# seedpar.sh [-j N] [seed-dir...] : regression of the kept seeded changes, each in its own scratch copy of /repo and
# /verif (under /tmp/seedpar.*), N at a time. /repo and /verif are not touched: the registered checks and the
# committed evidence still come from /verif run against /repo itself; this tool only answers "is every kept seed
# still detected". One line per seed:  <seed> <check> exit=<rc> violations=<n>
J=3
if [ "$1" = "-j" ]; then J=$2; shift 2; fi
cd /verif
seeds=("$@"); [ ${#seeds[@]} -eq 0 ] && seeds=(seeded/*/)
base=$(mktemp -d /tmp/seedpar.XXXX)
one() {
  d=$(readlink -f ${1%/}); n=$(basename $d); w=$base/$n
  prop=$(python3 -c "import json;print(json.load(open('$d/meta.json'))['property'])")
  mkdir -p $w
  rsync -a --exclude .git /repo/ $w/repo/
  rsync -a --exclude .git --exclude .work --exclude replays /verif/ $w/verif/
  mkdir -p $w/verif/replays
  ( cd $w/repo && git init -q . 2>/dev/null; git apply $d/patch.diff ) >/dev/null 2>&1 || { echo "$n $prop patch-does-not-apply"; rm -rf $w; return; }
  sed -i "s|=> /repo|=> $w/repo|" $w/verif/harness/go.mod
  sed -i "s|/repo|$w/repo|g" $w/verif/run.sh
  ( cd $w/verif && timeout -s KILL 1500 bash ./run.sh $prop ${TIER:-quick} > $w/log 2>&1 ); rc=$?
  echo "$n $prop exit=$rc violations=$(grep -c '^VIOLATION' $w/log) $(grep -h '^ERROR' $w/log | head -1 | cut -c1-120)"
  cp $w/log /verif/.work/seedpar-$n.log 2>/dev/null
  rm -rf $w
}
export -f one; export base TIER
printf '%s\n' "${seeds[@]}" | xargs -P $J -I{} bash -c 'one {}'
rm -rf $base
