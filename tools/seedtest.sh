#!/bin/bash
# seedtest.sh <patch.diff> <check-id>... : apply a seeded change to /repo, run the checks (quick), undo.
# Evidence files and replays written while the seeded change is applied are discarded: the committed
# evidence only ever describes runs against /repo as it is.
patch=$(readlink -f "$1"); shift
cd /verif
git -C /repo diff --quiet || { echo "/repo dirty"; exit 2; }
git -C /repo apply "$patch" || { echo "patch does not apply"; exit 2; }
keep=$(mktemp -d /dev/shm/seedtest.XXXX)
cp -a evidence "$keep/evidence"; ls replays > "$keep/replays.lst"
trap 'git -C /repo checkout -- . ; git -C /repo clean -fdq; rm -rf /verif/evidence; cp -a "$keep/evidence" /verif/evidence; for f in $(ls /verif/replays); do grep -qx "$f" "$keep/replays.lst" || rm -f "/verif/replays/$f"; done; rm -rf "$keep"' EXIT
for c in "$@"; do
  timeout -s KILL 900 ./run.sh $c ${TIER:-quick} > .work/seed-$c.log 2>&1; rc=$?
  echo "== $c exit=$rc $(grep -c '^VIOLATION' .work/seed-$c.log) violation lines"
  grep -h '^violation\|^VIOLATION\|^ERROR\|^NONCONF' .work/seed-$c.log | cut -c1-300 | head -6
done
