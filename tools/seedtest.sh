#!/bin/bash
# seedtest.sh <patch.diff> <check-id>... : apply a seeded change to /repo, run the checks (quick), undo.
patch=$(readlink -f "$1"); shift
cd /verif
git -C /repo diff --quiet || { echo "/repo dirty"; exit 2; }
git -C /repo apply "$patch" || { echo "patch does not apply"; exit 2; }
trap 'git -C /repo checkout -- . ; git -C /repo clean -fdq' EXIT
for c in "$@"; do
  timeout -s KILL 900 ./run.sh $c ${TIER:-quick} > .work/seed-$c.log 2>&1; rc=$?
  echo "== $c exit=$rc $(grep -c '^VIOLATION' .work/seed-$c.log) violation lines"
  grep -h '^violation\|^VIOLATION\|^ERROR\|^NONCONF' .work/seed-$c.log | cut -c1-300 | head -6
done
