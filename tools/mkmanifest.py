#!/usr/bin/env python3
"""Regenerates /verif/MANIFEST.json from the table below (one source of truth)."""
import json, subprocess

EXEC_NOTE = ("Trusted: TLC, the probe linearisation argument (DESIGN 3.1), quiescence sampling of goroutine states; "
             "bounded programs (<=5 tasks, <=12 probe instances), built-in shell commands only, schedule caps in the evidence file.")
EXEC_TEXT = ("Exec.tla (model of Run/RunTask/runDeps/runCommand/runDeferred/startExecution/semaphore) is model-checked by TLC against the "
             "ExecProps monitor invariants on every interleaving of the bounded programs; the same monitor is evaluated by TLC on every trace "
             "recorded from the real Executor driven through blocking probes (release orders enumerated depth-first + seeded), and the traces are "
             "validated against Exec.tla (trace validation). A VIOLATION comes only from a real trace failing the monitor, confirmed by re-execution.")
checks = {}
def ex(pid, focus):
    checks[pid] = dict(level="model_checking", text=EXEC_TEXT + " Focus: " + focus, note=EXEC_NOTE, ref="DESIGN.md 4.1, 5",
                       tech="TLA+ model (Exec.tla) checked by TLC + trace validation of real probe traces + schedule-controlled replay", engine="exec")
ex("C01", "dependency DAGs, shared run:once/when_changed deps, failing deps, N in {0,1,2,3}.")
ex("C02", "nested calls, for-loops, call variables, deferred calls, concurrent siblings.")
ex("C03", "failing commands at every position, ignore_error placements, exit codes; CLI exit status.")
ex("C06", "deduplicated tasks referenced from deps/cmds at depth, variable values incl. env-only.")
ex("C07", "concurrency limits, fan-out witness (first quiescent snapshot), deadlock detection, liveness under fairness, cycles.")
ex("C13", "guards (platforms, requires, enum, preconditions, prompt, internal) in every position, --yes/--force.")
ex("C14", "defer entries (shell and task calls) with failing commands, nesting, sibling cancellation.")

FP_NOTE = ("Trusted: TLC; the CLI binary built from /repo; crash points are command boundaries (SIGKILL issued by the task body); "
           "one directory with two matched and one excluded source file, two contents per file; timestamp histories separated by 12 ms sleeps.")
FP_TEXT = ("Fingerprint.tla (state under .task, write/roll-back protocol of both methods, every invocation mode) is model-checked by TLC against the "
           "FpProps monitor (C04/C05/C12) for all histories up to the depth bound; histories from a grammar over 14 invocation modes x 11 file operations x 14 task "
           "configurations plus seeded random ones are executed against the task CLI, the observed outcomes (body ran?, exit status, directory snapshot) are judged by "
           "TLC with the same monitor and compared step by step with the model's prediction (conformance). ")
def fp(pid, focus):
    checks[pid] = dict(level="model_checking", text=FP_TEXT + "Focus: " + focus, note=FP_NOTE, ref="DESIGN.md 4.2, 5",
                       tech="TLA+ state machine of fingerprint store (Fingerprint.tla) checked by TLC + history replay against the CLI + TLC evaluation of observed histories", engine="fp")
fp("C04", "skip only after a successful attempt for the present fingerprint: failing, killed, declined, dry, status, list --json, other-task steps before a run.")
fp("C05", "idempotence and re-execution after every file operation, missing generates, failing status, --force; excluded files must not trigger.")
fp("C12", "--dry, --status, --list-all (+--json), --summary: nothing runs, directory snapshot byte- and mtime-identical.")

CASES_NOTE = "Trusted: TLC's evaluation of the specification operators; the bounded universe stated in the evidence file; the public Executor API as observation point."
checks["C15"] = dict(level="model_checking", text="Resolve.tla defines Resolve(table, request) (exact name, first wildcard pattern in table order with only '*' special, unique alias, 203/200, suggestion for ordinary names). TLC enumerates every table of the bounded universe as initial states and emits the expected answer for every request; each (table, request) is asked of the real Executor (GetTask, MATCH validated by substitution, every 50th also run). Exhaustive within the universe.",
   note=CASES_NOTE, ref="DESIGN.md 4.3, 5 (C15)", tech="TLA+ functional specification enumerated by TLC (one implementation test per TLC state) against Executor.GetTask/Run", engine="load")

checks["C19"] = dict(level="model_checking", text="Args.tla states the contract as operators (Forward = identity on argument vectors, Quote = one identical argument, SplitVar at the first '=', the --init decision table). TLC enumerates every argument vector / value over a 21-character hostile alphabet within the length bounds as initial states with the expected result; every case is one invocation of the task CLI whose helper binary records the argv it received (byte comparison), or whose created file is inspected. Exhaustive within the bounds, plus hand-written longer hostile values.",
   note=CASES_NOTE + " The specification of C19 is the identity function: TLC contributes the exhaustive enumeration, not insight (DESIGN 8).", ref="DESIGN.md 4.6, 5 (C19), 8", tech="TLA+ cases specification enumerated by TLC, each case replayed through the task CLI with an argv-recording helper", engine="cli")

checks["C17"] = dict(level="model_checking", text="Output.tla models the group writer (buffer, emit at close) and the prefixed writer (each completed line as four writes under the Prefixed mutex) for concurrently running commands sharing one stream; TLC checks Inv_C17 (OutputProps: the stream is a concatenation of whole blocks / every line whole, once, prefixed; nothing lost or duplicated; error_only iff failed) on every interleaving of the bounded scenarios. The same predicate is evaluated by TLC on streams recorded from the real Executor, whose Stdout is a sink that holds every Write and returns them in harness-enumerated orders; recorded write sequences are validated against Output.tla.",
   note="Trusted: TLC, quiescence sampling, observation at Executor.Stdout with colour off; scenarios of <=3 commands x <=3 chunks.", ref="DESIGN.md 4.4, 5 (C17)", tech="TLA+ model of the output writers checked by TLC + write-order-controlled replay into the real Executor + trace validation", engine="out")

MERGE_TEXT = ("Merge.tla defines, declaratively, the callable table Exp(root) of an include tree (own tasks first, then the lifted entries of every include in declaration order: namespacing, flatten, internal, aliases incl. namespace aliases and the default-task alias, excludes, include dir and vars, root-absolute ':' references) and the error classes (cycle 110, missing file, duplicate 203). TLC enumerates every include tree of the bounded universe as initial states and emits the expected table; ")
checks["C08"] = dict(level="model_checking", text=MERGE_TEXT + "the driver writes the files, loads them with the real Executor and compares names, aliases, origin, internal, targets of deps and task: references, every other task attribute by reflection against the standalone parse of the defining file, and runs every callable name and alias (origin marker, working directory, include variable, which referenced tasks ran).",
   note=CASES_NOTE, ref="DESIGN.md 4.3, 5 (C08)", tech="TLA+ declarative merge specification enumerated by TLC (cases), compared with the real loader and with real runs of every callable name", engine="load")
checks["C09"] = dict(level="model_checking", text=MERGE_TEXT + "every tree is loaded repeatedly in one process under GOMAXPROCS 1/2/4/16 and the canonical dump of the merged table (order, aliases, directories, deps, commands, include and global variables) must be identical across loads.",
   note=CASES_NOTE + " Determinism is observed over a finite number of repeated loads (8 quick / 60 thorough per tree).", ref="DESIGN.md 4.3, 5 (C09)", tech="TLC-enumerated include trees (Merge.tla) loaded repeatedly by the real reader; canonical dumps compared", engine="load")

checks["C10"] = dict(level="model_checking", text="Vars.tla defines Value(cfg) (fold over the definition sites os < global/cli < include statement < included Taskfile < call < task with literal / template-of-lower / sh kinds) and EnvValue(cfg) (task env > task dotenv > global env > global dotenv, process environment first or last depending on the experiment). TLC enumerates every configuration as initial states with the expected value; each is one CLI run that prints {{.N}} / $E, for a task in the root file and in an included file.",
   note=CASES_NOTE, ref="DESIGN.md 4.3, 5 (C10)", tech="TLA+ precedence specification enumerated by TLC (cases), each case replayed through the task CLI", engine="load")

checks["C20"] = dict(level="model_checking", text="Remote.tla models readRemoteNodeContent (cache lookup, expiry, --offline, --download, fall-back on failure, checksum approval, the cache writes) as a decision per invocation over the state (server version and reachability, cache content / approved checksum / timestamp age); TLC checks the RemoteProps monitor (nothing unapproved runs, unapproved new content gives 104, an approved cached copy keeps tasks runnable offline or with the network down, plain http needs --insecure) on every history up to the depth bound. Histories from a grammar over server states x every flag subset, plus seeded random ones, are executed with the task CLI against an HTTP server owned by the driver; observed exit status and the content version that ran are judged by TLC with the same monitor and compared with the model's decision.",
   note="Trusted: TLC; local HTTP server of the driver; approval only via --yes (no terminal); one remote include over http.", ref="DESIGN.md 4.5, 5 (C20)", tech="TLA+ state machine of the remote cache checked by TLC + history replay against the CLI and a driver-owned HTTP server + TLC evaluation of observed histories", engine="remote")

checks["C16"] = dict(level="exploration", text="Shape.tla describes the universe of wrong-shaped Taskfiles (a valid baseline with one or two deviations: one of 15 YAML node kinds at one of 64 schema positions; line terminator LF/CRLF/CR; trailing newline) and specifies only the class of outcome (success or diagnosed error). TLC enumerates all single-deviation documents; pairs are sampled from the same universe. Every document is driven through Setup, listing, compiling, Status and a dry Run of every task name in a worker process; panic (recovered or process death) or a hang is a violation; a sample goes through the CLI (exit status in the documented set). Together with the C15 run (hostile task names) this is exploration guided by the specification, not a proof over byte strings.",
   note="Trusted: the worker/recover harness; shapes not bytes (DESIGN 8): invalid UTF-8, anchors/merge keys, deep nesting, git URLs are outside the universe.", ref="DESIGN.md 4.3 (Shape), 5 (C16), 8", tech="TLA+ cases specification of document shapes enumerated by TLC, each document exercised through the public API in a crash-isolating worker", engine="shape")

checks["C18"] = dict(level="exploration", text="The programs of the Exec specification family (hand-written core scenarios + seeded samples: parallel deps, nested calls, deduplicated tasks, for-loops, defers) are executed by a -race build of the harness under seeded release orders of the blocked probes and GOMAXPROCS 2/4/16, plus fixed workloads for features outside the Exec model (matrix refs from parallel deps, dynamic variables, prefixed/group writers, one file included twice, listing while running). The Go race detector is the oracle; a report counts when both access stacks have frames of Task's own packages. The specification supplies workloads and schedules; it does not model memory accesses.",
   note="Trusted: the Go race detector (it only sees executed interleavings). Exploration, not exhaustive.", ref="DESIGN.md 5 (C18), 8", tech="spec-generated concurrent workloads and schedules (Exec family) run under the Go race detector", engine="race")

checks["C11"] = dict(level="model_checking", text="Indep.tla fixes a library of tasks containing the sharing hazards (the same sh: text in tasks with different dir/env, one task called with different variables, matrix refs and for-loops over call variables) and defines Lines(call) as a function of the call alone. TLC enumerates every scenario: a target call after (sequential cmds) or next to (parallel deps) every prefix of at most two other calls. The driver runs each scenario with the real Executor and compares the target's lines with the specification and with the same call run alone.",
   note=CASES_NOTE + " Parallel scenarios use Go's own scheduling (not schedule-controlled).", ref="DESIGN.md 5 (C11)", tech="TLA+ cases specification (metamorphic: prefix;T vs T alone) enumerated by TLC, replayed through the real Executor", engine="load")

ALL = ["C%02d" % i for i in range(1, 21)]
pending = {p: "check not built yet in this round (planned, see DESIGN.md section 5)" for p in ALL if p not in checks}

m = {
 "version": 1,
 "setup_cmd": "bash /verif/run.sh --build-only",
 "hooks": {"guard": "verif (Go build tag)", "enable": "go build -tags verif (run.sh builds the harness and the CLI with it)",
           "baseline_off_cmd": "cd /repo && GOFLAGS=-mod=mod GOPROXY=off GOSUMDB=off GOTOOLCHAIN=local go test -vet=off -count=1 ./...",
           "source_commits": subprocess.run(["git", "-C", "/repo", "log", "--format=%h %s", "--grep=^verif:"], capture_output=True, text=True).stdout.strip().split("\n"),
           "add_only": True},
 "engines": [
  {"name": "exec", "path": "specs/exec + harness/execfam", "serves_properties": ["C01","C02","C03","C06","C07","C13","C14"],
   "kind_free_text": "TLA+ executor model + property monitor; TLC model checking, trace validation, schedule-controlled replay into the real Executor"},
  {"name": "fp", "path": "specs/fp + harness/fpfam", "serves_properties": ["C04","C05","C12"],
   "kind_free_text": "TLA+ model of the up-to-date state machine + monitor; TLC model checking, history replay against the task CLI, TLC evaluation of observed histories"},
  {"name": "load", "path": "specs/load + harness/loadfam", "serves_properties": ["C08","C09","C10","C11","C15"],
   "kind_free_text": "TLA+ functional specifications (cases models) enumerated by TLC, compared with the real loader/resolver"},
  {"name": "cli", "path": "specs/cli + harness/clifam", "serves_properties": ["C19"], "kind_free_text": "TLA+ cases specification + CLI driver with argv-recording helper"},
  {"name": "out", "path": "specs/out + harness/outfam", "serves_properties": ["C17"], "kind_free_text": "TLA+ model of group/prefixed writers; blocking-sink replay"},
  {"name": "remote", "path": "specs/remote + harness/remotefam", "serves_properties": ["C20"], "kind_free_text": "TLA+ model of the remote Taskfile cache; CLI histories against a local HTTP server"},
  {"name": "shape", "path": "specs/shape + harness/shapefam", "serves_properties": ["C16"], "kind_free_text": "TLA+ universe of wrong-shaped documents; crash-isolating API driver"},
  {"name": "race", "path": "harness/racefam (+ specs/exec programs)", "serves_properties": ["C18"], "kind_free_text": "-race build of the harness running the Exec family's programs and schedules"},
 ],
 "checks": [], "not_applicable": [], "notes": "Every check: bash /verif/run.sh <id> <quick|thorough>; replay: bash /verif/run.sh <id> --replay <file>. Specification growth beyond the listed properties (not tied to a property id): bash /verif/run.sh grow (cases specifications against the CLI: Locate.tla which Taskfile is used, Special.tla special variables and task directory, Echo.tla what Task prints about a command, ExitCodes.tla exit status by kind of outcome); specs/slots/Slots.tla (inductive invariant of the slot discipline, discharged by Apalache inside the C07 check). Binding demonstration: bash /verif/run.sh selftest (a genuine trace / history is accepted, corrupted ones are flagged by the monitor and rejected by the model). Vacuity: bash /verif/run.sh coverage (every action of Exec.tla is taken in the design model). Seeded changes: tools/seedpar.sh (102 kept under seeded/, all detected)."
}
for pid in ALL:
    if pid in checks:
        c = checks[pid]
        m["checks"].append({"property_id": pid, "quick_cmd": f"bash /verif/run.sh {pid} quick", "thorough_cmd": f"bash /verif/run.sh {pid} thorough",
            "evidence_file": f"/verif/evidence/{pid}.json", "replay_cmd_template": f"bash /verif/run.sh {pid} --replay {{path}}", "engine": c["engine"],
            "level_claimed": {"category": c["level"], "text": c["text"], "design_ref": c["ref"]}, "level_note": c["note"], "technique": c["tech"]})
    else:
        m["not_applicable"].append({"property_id": pid, "reason": pending[pid]})
json.dump(m, open("/verif/MANIFEST.json", "w"), indent=1)
print("checks:", len(m["checks"]), "not_applicable:", len(m["not_applicable"]))
