------------------------------- MODULE Remote -------------------------------
(***************************************************************************)
(* Model of reading a remote Taskfile (taskfile/reader.go                  *)
(* readRemoteNodeContent, node_http.go, node_cache.go): the cache (content,*)
(* approved checksum, timestamp) and the decision taken by one invocation. *)
(* KF "NoFallbackOnRefuse": when the download fails, the cached copy is    *)
(* only used if the *context* expired (timeout), not when the connection   *)
(* is refused or the server answers with an error.                         *)
(***************************************************************************)
EXTENDS RemoteProps

CONSTANTS KF, MaxSteps
VARIABLES cache,  \* [content, sum: version or 0, fresh: timestamp written by the last download is recent]
          steps

vars == <<pvars, cache, steps>>
Flags == {"yes", "download", "offline", "expiry", "insecure", "timeout"}
FlagSets == {f \in SUBSET Flags : ~({"download", "offline"} \subseteq f)}

\* Decide(flags) = [exit, ran, cache']
Decide(flags) ==
  LET keep(x, r) == [exit |-> x, ran |-> r, cache |-> cache]
      valid == cache.content # 0 /\ cache.fresh /\ "expiry" \in flags
      found == cache.content # 0
      fetch ==
        IF srv.mode = "up"
        THEN IF cache.sum = srv.v \/ "yes" \in flags
             THEN [exit |-> 0, ran |-> srv.v, cache |-> [content |-> srv.v, sum |-> srv.v, fresh |-> TRUE]]
             ELSE keep(104, 0)
        ELSE IF found /\ (srv.mode = "slow" \/ "NoFallbackOnRefuse" \notin KF) THEN keep(0, cache.content)
        ELSE keep(IF srv.mode = "slow" THEN 108 ELSE IF srv.mode = "err500" THEN 100 ELSE 103, 0)   \* timeout / "not found" for a non-200 answer / fetch failed
  IN IF "insecure" \notin flags THEN keep(105, 0)
     ELSE IF ~found THEN (IF "offline" \in flags THEN keep(106, 0) ELSE fetch)
     ELSE IF ~valid THEN (IF "offline" \in flags THEN keep(0, cache.content) ELSE fetch)
     ELSE IF "download" \notin flags THEN keep(0, cache.content)
     ELSE fetch

Init == MonInit /\ cache = [content |-> 0, sum |-> 0, fresh |-> FALSE] /\ steps = 0

Servers == [v : 1..2, mode : {"up", "refuse", "slow", "err500"}]

Next ==
  /\ steps < MaxSteps /\ steps' = steps + 1
  /\ \/ \E s \in Servers : SetServer(s) /\ UNCHANGED cache
     \/ /\ cache' = [cache EXCEPT !.fresh = FALSE]          \* time passes: the timestamp becomes old
        /\ UNCHANGED pvars
     \/ /\ cache' = [cache EXCEPT !.sum = 0]                \* the stored checksum is lost (file deleted or truncated); the copy stays
        /\ UNCHANGED pvars
     \/ \E f \in FlagSets : LET d == Decide(f) IN
          /\ ("timeout" \in f) = (srv.mode = "slow")          \* the short timeout is only used to make "slow" affordable
          /\ Invocation(f, [exit |-> d.exit, ran |-> d.ran]) /\ cache' = d.cache

Spec == Init /\ [][Next]_vars
Inv_C20 == bad = {}
=============================================================================
