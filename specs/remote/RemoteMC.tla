---- MODULE RemoteMC ----
EXTENDS Remote, RemoteData
KFNone == {}
====
