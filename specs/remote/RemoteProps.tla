---------------------------- MODULE RemoteProps ----------------------------
(***************************************************************************)
(* C20 as a monitor over an observed history: the state of an HTTP server  *)
(* owned by the driver (content version, reachability) and Task            *)
(* invocations with their flags and what was observed: exit status and     *)
(* which content version's task body ran (0 = none).                       *)
(***************************************************************************)
EXTENDS Naturals, Sequences, FiniteSets, TLC

VARIABLES srv,       \* [v: content version, mode: "up" | "refuse" | "slow" | "err500"]
          approved,  \* versions the user approved so far (--yes while that version was fetched)
          cachedv,   \* version of the copy that was last downloaded and approved, 0 = none
          bad

pvars == <<srv, approved, cachedv, bad>>
Viol(p, s) == [prop |-> p, sig |-> s]

MonInit == srv = [v |-> 1, mode |-> "up"] /\ approved = {} /\ cachedv = 0 /\ bad = {}

SetServer(s) == srv' = s /\ UNCHANGED <<approved, cachedv, bad>>

\* an invocation: flags is a set of "yes" "download" "offline" "expiry" (long expiry) "insecure" "timeout" (short)
InvViol(flags, obs) ==
  \* plain http is refused without --insecure
  (IF "insecure" \notin flags /\ (obs.exit # 105 \/ obs.ran # 0) THEN {Viol("C20", "http-not-refused")} ELSE {})
  \cup
  \* nothing unapproved runs
  (IF obs.ran # 0 /\ obs.ran \notin approved /\ ~("yes" \in flags /\ obs.ran = srv.v /\ srv.mode = "up" /\ "offline" \notin flags)
   THEN {Viol("C20", "unapproved-content-ran")} ELSE {})
  \cup
  \* new or changed content that has to be fetched and is not approved: 104, nothing runs
  (IF /\ "insecure" \in flags /\ "offline" \notin flags /\ "yes" \notin flags /\ srv.mode = "up" /\ srv.v \notin approved
      /\ ("expiry" \notin flags \/ cachedv = 0 \/ "download" \in flags)
      /\ (obs.exit # 104 \/ obs.ran # 0)
   THEN {Viol("C20", "unapproved-not-104")} ELSE {})
  \cup
  \* an approved cached copy keeps the tasks runnable when offline or when the network is down
  (IF /\ "insecure" \in flags /\ cachedv # 0 /\ ("offline" \in flags \/ srv.mode # "up")
      /\ ~(obs.exit = 0 /\ obs.ran = cachedv)
   THEN {Viol("C20", "cache-not-used:" \o (IF "offline" \in flags THEN "offline" ELSE srv.mode) \o
                     (IF "expiry" \in flags THEN ":long-expiry" ELSE ":expired"))} ELSE {})
  \cup
  \* without any cached copy and offline: error 106, nothing runs
  (IF "insecure" \in flags /\ cachedv = 0 /\ "offline" \in flags /\ (obs.exit = 0 \/ obs.ran # 0)
   THEN {Viol("C20", "offline-without-cache-ran")} ELSE {})

Invocation(flags, obs) ==
  /\ bad' = bad \cup InvViol(flags, obs)
  /\ approved' = IF obs.exit = 0 /\ obs.ran # 0 /\ "yes" \in flags /\ "offline" \notin flags /\ srv.mode = "up" /\ obs.ran = srv.v
                 THEN approved \cup {obs.ran} ELSE approved
  /\ cachedv' = IF obs.exit = 0 /\ obs.ran # 0 THEN obs.ran ELSE cachedv
  /\ UNCHANGED srv
=============================================================================
