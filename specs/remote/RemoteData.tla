---- MODULE RemoteData ----
KFOpen == {"NoFallbackOnRefuse"}
Histories == <<>>
====
