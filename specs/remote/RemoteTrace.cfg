SPECIFICATION TSpec
CONSTANTS
  KF <- KFOpen
  MaxSteps = 1000
CHECK_DEADLOCK FALSE
