SPECIFICATION Spec
CONSTANTS
  KF <- KFNone
  MaxSteps = 5
INVARIANT Inv_C20
CHECK_DEADLOCK FALSE
