---------------------------- MODULE RemoteTrace ----------------------------
\* Replays recorded histories: server changes and ageing are applied, observed invocations are
\* fed to the RemoteProps monitor and compared with the model's decision (drift).
EXTENDS Remote, RemoteData
VARIABLES h, l, hist, drift
tvars == <<vars, h, l, hist, drift>>
KFNone == {}

TInit == /\ h = 1 /\ l = 1 /\ hist = Histories[1].steps /\ drift = {}
         /\ MonInit /\ cache = [content |-> 0, sum |-> 0, fresh |-> FALSE] /\ steps = 0

Step ==
  /\ l <= Len(hist)
  /\ LET s == hist[l] IN
     CASE s.op = "srv" -> /\ SetServer([v |-> s.v, mode |-> s.mode]) /\ UNCHANGED <<cache, drift>>
       [] s.op = "age" -> /\ cache' = [cache EXCEPT !.fresh = FALSE] /\ UNCHANGED <<pvars, drift>>
       [] s.op = "losesum" -> /\ cache' = [cache EXCEPT !.sum = 0] /\ UNCHANGED <<pvars, drift>>
       [] s.op = "inv" -> LET d == Decide(s.flags) IN
                          /\ Invocation(s.flags, [exit |-> s.exit, ran |-> s.ran])
                          /\ cache' = d.cache
                          /\ drift' = drift \cup (IF d.exit # s.exit \/ d.ran # s.ran
                                                  THEN {[step |-> l, want |-> <<d.exit, d.ran>>, got |-> <<s.exit, s.ran>>]} ELSE {})
  /\ l' = l + 1 /\ UNCHANGED <<h, hist, steps>>

NextHistory ==
  /\ l = Len(hist) + 1
  /\ PrintT("VERDICT|" \o Histories[h].id \o "|" \o ToString(bad) \o "|" \o ToString(drift))
  /\ IF h < Len(Histories)
     THEN /\ h' = h + 1 /\ l' = 1 /\ hist' = Histories[h + 1].steps /\ drift' = {}
          /\ srv' = [v |-> 1, mode |-> "up"] /\ approved' = {} /\ cachedv' = 0 /\ bad' = {}
          /\ cache' = [content |-> 0, sum |-> 0, fresh |-> FALSE] /\ UNCHANGED steps
     ELSE /\ l' = l + 1 /\ UNCHANGED <<vars, h, hist, drift>>

TSpec == TInit /\ [][Step \/ NextHistory]_tvars
=============================================================================
