---------------------------- MODULE OutputProps ----------------------------
(***************************************************************************)
(* C17 as predicates over the byte stream that reached the shared output,  *)
(* abstracted to a sequence of tokens.  The stream is what an observer of  *)
(* Executor.Stdout sees: the concatenation of the Write calls in the order *)
(* in which they arrived.  Nothing here describes the writers.             *)
(*                                                                         *)
(* A scenario: cmds = sequence of [id, chunks, fail]; chunks = sequence of *)
(* writes, each a sequence of tokens; a payload token is a string "a1", "NL" *)
(* is a newline.  mode = [style: group|prefixed, begin, end, errorOnly].   *)
(* Stream tokens: payload tokens, "NL", <<"B", id>> / <<"E", id>> (begin / *)
(* end line of a group, each including its newline), "[" <<"P", id>> "] "  *)
(* (the three writes that make a prefix).                                  *)
(***************************************************************************)
EXTENDS Naturals, Sequences, FiniteSets, SequencesExt, TLC

Payload(c) == FlattenSeq(c.chunks)

\* ---- group
Block(c, mode) == (IF mode.begin THEN <<"B:" \o c.id>> ELSE <<>>) \o Payload(c) \o (IF mode.end THEN <<"E:" \o c.id>> ELSE <<>>)
Shown(c, mode) == Payload(c) # <<>> /\ (~mode.errorOnly \/ c.fail)

RECURSIVE ConcatBlocks(_, _, _)
ConcatBlocks(order, cmds, mode) ==
  IF order = <<>> THEN <<>> ELSE Block(cmds[Head(order)], mode) \o ConcatBlocks(Tail(order), cmds, mode)

Perms(S) == {p \in [1..Cardinality(S) -> S] : \A i, j \in 1..Cardinality(S) : i # j => p[i] # p[j]}

\* the stream is a concatenation of whole blocks, one per shown command, in some order
GroupOK(stream, cmds, mode) ==
  LET shown == {i \in 1..Len(cmds) : Shown(cmds[i], mode)} IN
  \E p \in Perms(shown) : stream = ConcatBlocks(p, cmds, mode)

\* classification of a failure, for the verdict signature
GroupSig(stream, cmds, mode) ==
  LET shown == {i \in 1..Len(cmds) : Shown(cmds[i], mode)}
      want  == UNION {Range(Block(cmds[i], mode)) : i \in shown}
      count(tok) == Cardinality({k \in 1..Len(stream) : stream[k] = tok})
  IN IF \E tok \in want : count(tok) = 0 THEN "lost"
     ELSE IF \E k \in 1..Len(stream) : stream[k] \notin want THEN
          (IF mode.errorOnly THEN "error-only-shown-on-success" ELSE "unexpected-output")
     ELSE IF \E tok \in want \ {"NL"} : count(tok) > 1 THEN "duplicated"
     ELSE "torn"

\* ---- prefixed
\* the lines a command produces: payload split at NL; a trailing partial line is completed
RECURSIVE SplitLines(_, _)
SplitLines(toks, cur) ==
  IF toks = <<>> THEN (IF cur = <<>> THEN <<>> ELSE <<cur>>)
  ELSE IF Head(toks) = "NL" THEN <<cur>> \o SplitLines(Tail(toks), <<>>)
  ELSE SplitLines(Tail(toks), Append(cur, Head(toks)))
\* an empty line ("\n" alone) is dropped by the prefixed writer only when it is the very last, empty, remainder
LinesOf(c) == SplitLines(Payload(c), <<>>)

\* parse the stream into [id, toks] lines; <<"FAIL">> on anything else
RECURSIVE ParsePrefixed(_, _)
ParsePrefixed(s, ids) ==
  IF s = <<>> THEN <<>>
  ELSE IF Len(s) >= 3 /\ s[1] = "[" /\ s[3] = "] " /\ \E id \in ids : s[2] = "P:" \o id
  THEN LET rest == SubSeq(s, 4, Len(s))
           pid == CHOOSE id \in ids : s[2] = "P:" \o id
           nl == IF \E k \in 1..Len(rest) : rest[k] = "NL" THEN CHOOSE k \in 1..Len(rest) : rest[k] = "NL" /\ \A j \in 1..(k-1) : rest[j] # "NL" ELSE 0
       IN IF nl = 0 THEN << [id |-> "FAIL", toks |-> <<>>] >>
          ELSE << [id |-> pid, toks |-> SubSeq(rest, 1, nl - 1)] >> \o ParsePrefixed(SubSeq(rest, nl + 1, Len(rest)), ids)
  ELSE << [id |-> "FAIL", toks |-> <<>>] >>

PrefixedOK(stream, cmds) ==
  LET ls == ParsePrefixed(stream, {cmds[i].id : i \in 1..Len(cmds)}) IN
  /\ \A k \in 1..Len(ls) : ls[k].id # "FAIL"
  /\ \A i \in 1..Len(cmds) :
       SelectSeq(ls, LAMBDA l : l.id = cmds[i].id) = [k \in 1..Len(LinesOf(cmds[i])) |-> [id |-> cmds[i].id, toks |-> LinesOf(cmds[i])[k]]]
  /\ \A k \in 1..Len(ls) : \E i \in 1..Len(cmds) : cmds[i].id = ls[k].id

StreamOK(stream, cmds, mode) == IF mode.style = "group" THEN GroupOK(stream, cmds, mode) ELSE PrefixedOK(stream, cmds)
StreamSig(stream, cmds, mode) == IF mode.style = "group" THEN "group-" \o GroupSig(stream, cmds, mode) ELSE "prefixed-broken"
=============================================================================
