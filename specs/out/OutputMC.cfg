SPECIFICATION Spec
CONSTANTS
  Scenarios <- GenScenarios
  KF <- KFNone
INVARIANT Inv_C17
CHECK_DEADLOCK TRUE
