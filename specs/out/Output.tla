------------------------------- MODULE Output -------------------------------
(***************************************************************************)
(* Model of internal/output: the group writer (buffer everything, emit at  *)
(* close) and the prefixed writer (emit each completed line as four writes *)
(* under the Prefixed mutex), for commands running concurrently and        *)
(* sharing one output stream.  `out` is the sequence of Write calls in     *)
(* arrival order.                                                          *)
(* KF "GroupTwoWrites": groupWriter.close issues the begin line and the    *)
(* rest as two unsynchronised writes.                                      *)
(***************************************************************************)
EXTENDS OutputProps

CONSTANTS Scenarios, KF
VARIABLES sc,      \* the scenario (element of Scenarios): [cmds, mode]
          pc,      \* command index -> "run" | "closing" | "line1" | "line2" | "line3" | "done"
          k,       \* command index -> number of chunks written so far
          buf,     \* command index -> buffered tokens
          lock,    \* 0 or the command holding the Prefixed mutex
          pend,    \* command index -> line being emitted (prefixed)
          closing, \* command index -> close() has been called (prefixed: flush the partial line)
          out      \* sequence of writes (each a sequence of tokens)

vars == <<sc, pc, k, buf, lock, pend, closing, out>>
Cmds == sc.cmds
Mode == sc.mode
N == Len(Cmds)
Stream == FlattenSeq(out)

Init == /\ sc \in Range(Scenarios)
        /\ pc = [i \in 1..Len(sc.cmds) |-> "run"] /\ k = [i \in 1..Len(sc.cmds) |-> 0]
        /\ buf = [i \in 1..Len(sc.cmds) |-> <<>>] /\ lock = 0
        /\ pend = [i \in 1..Len(sc.cmds) |-> <<>>] /\ closing = [i \in 1..Len(sc.cmds) |-> FALSE]
        /\ out = <<>>

\* the command writes its next chunk into its writer
WriteChunk(i) ==
  /\ pc[i] = "run" /\ k[i] < Len(Cmds[i].chunks)
  /\ k' = [k EXCEPT ![i] = @ + 1]
  /\ buf' = [buf EXCEPT ![i] = @ \o Cmds[i].chunks[k[i] + 1]]
  /\ UNCHANGED <<sc, pc, lock, pend, closing, out>>

\* the command ends; the closer runs
Finish(i) ==
  /\ pc[i] = "run" /\ k[i] = Len(Cmds[i].chunks)
  /\ IF Mode.style = "group"
     THEN IF (Mode.errorOnly /\ ~Cmds[i].fail) \/ buf[i] = <<>>
          THEN pc' = [pc EXCEPT ![i] = "done"] /\ UNCHANGED <<out, closing>>
          ELSE IF "GroupTwoWrites" \in KF /\ Mode.begin
          THEN pc' = [pc EXCEPT ![i] = "closing"] /\ out' = Append(out, <<"B:" \o Cmds[i].id>>) /\ UNCHANGED closing
          ELSE pc' = [pc EXCEPT ![i] = "done"] /\ out' = Append(out, Block(Cmds[i], Mode)) /\ UNCHANGED closing
     ELSE pc' = [pc EXCEPT ![i] = "flush"] /\ closing' = [closing EXCEPT ![i] = TRUE] /\ UNCHANGED out
  /\ UNCHANGED <<sc, k, buf, lock, pend>>

GroupCloseRest(i) ==
  /\ pc[i] = "closing"
  /\ out' = Append(out, Payload(Cmds[i]) \o (IF Mode.end THEN <<"E:" \o Cmds[i].id>> ELSE <<>>))
  /\ pc' = [pc EXCEPT ![i] = "done"]
  /\ UNCHANGED <<sc, k, buf, lock, pend, closing>>

\* prefixed: a complete line (or, at close, the partial rest) is in the buffer: take the mutex, write "["
HasNL(b) == \E j \in 1..Len(b) : b[j] = "NL"
FirstNL(b) == CHOOSE j \in 1..Len(b) : b[j] = "NL" /\ \A m \in 1..(j - 1) : b[m] # "NL"
LineStart(i) ==
  /\ Mode.style = "prefixed" /\ pc[i] \in {"run", "flush"} /\ lock = 0
  /\ \/ HasNL(buf[i])
     \/ pc[i] = "flush" /\ buf[i] # <<>>
  /\ LET line == IF HasNL(buf[i]) THEN SubSeq(buf[i], 1, FirstNL(buf[i]) - 1) ELSE buf[i]
         rest == IF HasNL(buf[i]) THEN SubSeq(buf[i], FirstNL(buf[i]) + 1, Len(buf[i])) ELSE <<>>
     IN /\ pend' = [pend EXCEPT ![i] = <<pc[i], line>>]
        /\ buf' = [buf EXCEPT ![i] = rest]
  /\ lock' = i /\ out' = Append(out, <<"[">>)
  /\ pc' = [pc EXCEPT ![i] = "line1"]
  /\ UNCHANGED <<sc, k, closing>>
Line1(i) == /\ pc[i] = "line1" /\ out' = Append(out, <<"P:" \o Cmds[i].id>>) /\ pc' = [pc EXCEPT ![i] = "line2"]
            /\ UNCHANGED <<sc, k, buf, lock, pend, closing>>
Line2(i) == /\ pc[i] = "line2" /\ out' = Append(out, <<"] ">>) /\ pc' = [pc EXCEPT ![i] = "line3"]
            /\ UNCHANGED <<sc, k, buf, lock, pend, closing>>
Line3(i) == /\ pc[i] = "line3" /\ out' = Append(out, Append(pend[i][2], "NL"))
            /\ pc' = [pc EXCEPT ![i] = pend[i][1]] /\ lock' = 0
            /\ UNCHANGED <<sc, k, buf, pend, closing>>
\* a line must be emitted before the next chunk is accepted (Write emits complete lines synchronously)
MustEmit(i) == Mode.style = "prefixed" /\ HasNL(buf[i])
FlushDone(i) == /\ pc[i] = "flush" /\ buf[i] = <<>> /\ pc' = [pc EXCEPT ![i] = "done"]
                /\ UNCHANGED <<sc, k, buf, lock, pend, closing, out>>

Done == \A i \in 1..N : pc[i] = "done"
Next == \/ \E i \in 1..N : \/ (WriteChunk(i) /\ ~MustEmit(i))
                           \/ (Finish(i) /\ ~MustEmit(i))
                           \/ GroupCloseRest(i)
                           \/ LineStart(i) \/ Line1(i) \/ Line2(i) \/ Line3(i) \/ FlushDone(i)
        \/ (Done /\ UNCHANGED vars)
Spec == Init /\ [][Next]_vars

Inv_C17 == Done => StreamOK(Stream, Cmds, Mode)
=============================================================================
