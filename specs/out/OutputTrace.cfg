SPECIFICATION TSpec
CONSTANTS
  Scenarios <- GenScenarios
  KF <- KFOpen
CONSTRAINT OnTarget
CHECK_DEADLOCK FALSE
