---- MODULE OutputMC ----
EXTENDS Output, OutData
KFNone == {}
====
