SPECIFICATION Spec
CONSTANTS
  Scenarios <- GenScenarios
  KF <- KFOpen
INVARIANT Inv_C17
CHECK_DEADLOCK TRUE
