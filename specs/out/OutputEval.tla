---------------------------- MODULE OutputEval ----------------------------
\* evaluates StreamOK (OutputProps) on every recorded stream; one state per trace
EXTENDS OutputProps, OutData
VARIABLE tr
Init == tr = 1
Next == /\ tr <= Len(Traces)
        /\ LET t == Traces[tr] s == GenScenarios[t.sc] st == FlattenSeq(t.writes) IN
           PrintT("VERDICT|" \o t.id \o "|" \o (IF StreamOK(st, s.cmds, s.mode) THEN "ok" ELSE StreamSig(st, s.cmds, s.mode)))
        /\ tr' = tr + 1
Spec == Init /\ [][Next]_tr
=============================================================================
