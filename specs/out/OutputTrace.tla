---------------------------- MODULE OutputTrace ----------------------------
(***************************************************************************)
(* Recorded write sequences (arrival order at Executor.Stdout) of real     *)
(* runs.  Props: StreamOK is evaluated on each recorded stream (verdict    *)
(* lines).  Conformance: each recorded sequence of writes must be the      *)
(* `out` of some terminated behaviour of Output.tla; behaviours whose      *)
(* `out` is not a prefix of the recorded sequence are pruned.              *)
(***************************************************************************)
EXTENDS Output, OutData
VARIABLES tr, target

KFNone == {}
tvars == <<vars, tr, target>>
Target == target

TInit == /\ tr = 1 /\ sc = GenScenarios[Traces[1].sc] /\ target = Traces[1].writes
         /\ pc = [i \in 1..Len(sc.cmds) |-> "run"] /\ k = [i \in 1..Len(sc.cmds) |-> 0]
         /\ buf = [i \in 1..Len(sc.cmds) |-> <<>>] /\ lock = 0
         /\ pend = [i \in 1..Len(sc.cmds) |-> <<>>] /\ closing = [i \in 1..Len(sc.cmds) |-> FALSE]
         /\ out = <<>>

Model == (\E i \in 1..N : \/ (WriteChunk(i) /\ ~MustEmit(i)) \/ (Finish(i) /\ ~MustEmit(i)) \/ GroupCloseRest(i)
                           \/ LineStart(i) \/ Line1(i) \/ Line2(i) \/ Line3(i) \/ FlushDone(i))
         /\ UNCHANGED <<tr, target>>

NextTrace ==
  /\ Done /\ out = Target
  /\ PrintT(<<"CONF", Traces[tr].id>>)
  /\ IF tr < Len(Traces)
     THEN /\ tr' = tr + 1 /\ sc' = GenScenarios[Traces[tr + 1].sc] /\ target' = Traces[tr + 1].writes
          /\ pc' = [i \in 1..Len(sc'.cmds) |-> "run"] /\ k' = [i \in 1..Len(sc'.cmds) |-> 0]
          /\ buf' = [i \in 1..Len(sc'.cmds) |-> <<>>] /\ lock' = 0
          /\ pend' = [i \in 1..Len(sc'.cmds) |-> <<>>] /\ closing' = [i \in 1..Len(sc'.cmds) |-> FALSE]
          /\ out' = <<>>
     ELSE /\ tr' = tr + 1 /\ UNCHANGED <<vars, target>>

TNext == (tr <= Len(Traces)) /\ (Model \/ NextTrace)
TSpec == TInit /\ [][TNext]_tvars
OnTarget == tr > Len(Traces) \/ IsPrefix(out, Target)
=============================================================================
