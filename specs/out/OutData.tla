---- MODULE OutData ----
EXTENDS TLC, Sequences
KFOpen == {"GroupTwoWrites"}
P(id, k) == id \o ToString(k)
GenScenarios == <<
 [cmds |-> << [id |-> "a", chunks |-> << <<P("a",1)>>, <<P("a",2), "NL">> >>, fail |-> FALSE],
              [id |-> "b", chunks |-> << <<P("b",1), "NL", P("b",2)>> >>, fail |-> TRUE] >>,
  mode |-> [style |-> "group", begin |-> TRUE, end |-> TRUE, errorOnly |-> FALSE]],
 [cmds |-> << [id |-> "a", chunks |-> << <<P("a",1)>>, <<P("a",2), "NL">> >>, fail |-> FALSE],
              [id |-> "b", chunks |-> << <<P("b",1), "NL", P("b",2)>> >>, fail |-> TRUE] >>,
  mode |-> [style |-> "prefixed", begin |-> FALSE, end |-> FALSE, errorOnly |-> FALSE]]
>>
Traces == <<>>
====
