---- MODULE SlotsMC ----
EXTENDS Slots
\* eight activations, any limit 1..8 (symbolic)
ConstInit == Acts = 1..8 /\ N \in 1..8
====
