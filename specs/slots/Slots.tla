------------------------------- MODULE Slots -------------------------------
(***************************************************************************)
(* The slot discipline of concurrency.go on its own, for ANY number of     *)
(* activations and any limit N >= 1: an activation takes a slot before it  *)
(* executes commands (acquireConcurrencyLimit), lends it back while it     *)
(* waits for deps / a called task / a deduplicated execution               *)
(* (releaseConcurrencyLimit ... reacquire) and returns it when it is done. *)
(* Inductive invariant: the number of slots in use equals the number of    *)
(* activations that hold one, and never exceeds N - hence at most N tasks  *)
(* execute commands at any instant (C07a), beyond the bounded MC batches.  *)
(* Checked with Apalache: IndInit => IndInv (length 0) and                 *)
(* IndInv /\ Next => IndInv' (length 1).                                   *)
(***************************************************************************)
EXTENDS Integers, FiniteSets

CONSTANTS
  \* @type: Set(Int);
  Acts,
  \* @type: Int;
  N

VARIABLES
  \* @type: Int -> Str;
  st,     \* "idle" | "holding" | "lent" | "done"
  \* @type: Int;
  sem

Holding == {a \in Acts : st[a] = "holding"}

TypeOK == st \in [Acts -> {"idle", "holding", "lent", "done"}] /\ sem \in 0..N

Init == st = [a \in Acts |-> "idle"] /\ sem = 0

Acquire(a)   == st[a] = "idle" /\ sem < N /\ st' = [st EXCEPT ![a] = "holding"] /\ sem' = sem + 1
Lend(a)      == st[a] = "holding" /\ st' = [st EXCEPT ![a] = "lent"] /\ sem' = sem - 1
TakeBack(a)  == st[a] = "lent" /\ sem < N /\ st' = [st EXCEPT ![a] = "holding"] /\ sem' = sem + 1
Release(a)   == st[a] = "holding" /\ st' = [st EXCEPT ![a] = "done"] /\ sem' = sem - 1

Next == \E a \in Acts : Acquire(a) \/ Lend(a) \/ TakeBack(a) \/ Release(a)

IndInv == TypeOK /\ sem = Cardinality(Holding) /\ sem <= N
IndInit == IndInv
Inv_C07a == Cardinality(Holding) <= N
=============================================================================
