SPECIFICATION TSpec
CONSTANT Programs <- GenPrograms
CHECK_DEADLOCK FALSE
