SPECIFICATION TSpec
CONSTANTS
  Programs <- GenPrograms
  KF <- KFOpen
  MaxCalls = 1000
CONSTRAINT HW
INVARIANT NotAccepted
POSTCONDITION ReportHW
CHECK_DEADLOCK FALSE
