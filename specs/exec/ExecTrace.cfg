SPECIFICATION TSpec
CONSTANTS
  Programs <- GenPrograms
  KF <- KFAll
  MaxCalls = 1000
CONSTRAINT HW
INVARIANT NotAccepted
POSTCONDITION ReportHW
CHECK_DEADLOCK FALSE
