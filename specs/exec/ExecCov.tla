------------------------------ MODULE ExecCov ------------------------------
\* The next-state relation of Exec written as a disjunction of NAMED actions, so that TLC's -coverage report
\* counts every action of the model separately (vacuity check: `bash run.sh coverage`).  Same relation as Exec!Next.
EXTENDS ExecMC
cRootStart == RootStart /\ UNCHANGED prog
cRootNext == RootNext /\ UNCHANGED prog
cRootJoin == RootJoin /\ UNCHANGED prog
cEnter == \E p \in Paths : Enter(p) /\ UNCHANGED prog
cAcquire == \E p \in Paths : Acquire(p) /\ UNCHANGED prog
cStart == \E p \in Paths : Start(p) /\ UNCHANGED prog
cDedupWake == \E p \in Paths : DedupWake(p) /\ UNCHANGED prog
cKF_DedupWakeOnCtx == \E p \in Paths : KF_DedupWakeOnCtx(p) /\ UNCHANGED prog
cDepsFork == \E p \in Paths : DepsFork(p) /\ UNCHANGED prog
cDepsJoin == \E p \in Paths : DepsJoin(p) /\ UNCHANGED prog
cGate == \E p \in Paths : Gate(p) /\ UNCHANGED prog
cCmdsDone == \E p \in Paths : CmdsDone(p) /\ UNCHANGED prog
cCmdSkipCancelled == \E p \in Paths : CmdSkipCancelled(p) /\ UNCHANGED prog
cCallFork == \E p \in Paths : CallFork(p) /\ UNCHANGED prog
cCallJoin == \E p \in Paths : CallJoin(p) /\ UNCHANGED prog
cDefersDone == \E p \in Paths : DefersDone(p) /\ UNCHANGED prog
cDeferCallFork == \E p \in Paths : DeferCallFork(p) /\ UNCHANGED prog
cDeferCallJoin == \E p \in Paths : DeferCallJoin(p) /\ UNCHANGED prog
cFinish == \E p \in Paths : Finish(p) /\ UNCHANGED prog
cReturn == \E p \in Paths : Return(p) /\ UNCHANGED prog
cCmdBegin == \E p \in Paths : CmdBegin(p) /\ UNCHANGED prog
cCmdEnd == \E p \in Paths : CmdEnd(p) /\ UNCHANGED prog
cDeferBegin == \E p \in Paths : DeferBegin(p) /\ UNCHANGED prog
cDeferEnd == \E p \in Paths : DeferEnd(p) /\ UNCHANGED prog
NextCov == cRootStart \/ cRootNext \/ cRootJoin \/ cEnter \/ cAcquire \/ cStart \/ cDedupWake \/ cKF_DedupWakeOnCtx \/ cDepsFork \/ cDepsJoin \/ cGate \/ cCmdsDone \/ cCmdSkipCancelled \/ cCallFork \/ cCallJoin \/ cDefersDone \/ cDeferCallFork \/ cDeferCallJoin \/ cFinish \/ cReturn \/ cCmdBegin \/ cCmdEnd \/ cDeferBegin \/ cDeferEnd \/ Terminated
SpecCov == Init /\ [][NextCov]_vars
=============================================================================
