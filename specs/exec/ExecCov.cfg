SPECIFICATION SpecCov
CONSTANTS
  Programs <- GenPrograms
  KF <- KFNone
  MaxCalls = 1000
INVARIANTS Inv_NoViolation Inv_Sem Inv_RunningHoldSlots
CHECK_DEADLOCK TRUE
