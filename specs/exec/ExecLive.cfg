SPECIFICATION FairSpec
CONSTANTS
  Programs <- GenPrograms
  KF <- KFNone
  MaxCalls = 1000
PROPERTY Termination
CHECK_DEADLOCK TRUE
