------------------------- MODULE ExecPropsTrace -------------------------
(***************************************************************************)
(* Evaluates the property monitor of ExecProps on traces recorded from the *)
(* real Executor.  No model of the implementation is involved: the step    *)
(* relation only feeds the recorded events to the monitor, so the verdict  *)
(* printed for each trace is a function of that trace alone.               *)
(***************************************************************************)
EXTENDS ExecProps, ExecData
VARIABLES tr, l, evs

tvars == <<prog, tr, l, evs, mvars>>

Evs == evs

Probe(ev) == [p |-> ev.p, t |-> ev.t, i |-> ev.i, item |-> ev.item, v |-> ev.v, xc |-> ev.xc]

TInit == /\ tr = 1 /\ l = 1 /\ prog = Programs[Traces[1].prog] /\ evs = Traces[1].evs /\ MonInit

Consume ==
  /\ l <= Len(Evs)
  /\ LET ev == Evs[l] IN
       CASE ev.e = "B"  -> OnBegin(Probe(ev))
         [] ev.e = "E"  -> OnEnd(Probe(ev))
         [] ev.e = "R"  -> OnRet([class |-> ev.class, code |-> ev.code, xcode |-> ev.xcode])
         [] ev.e = "Q"  -> OnQ(ev.set)
         [] ev.e = "DL" -> OnDL
         [] OTHER       -> MonUnchanged
  /\ l' = l + 1
  /\ UNCHANGED <<tr, prog, evs>>

NextTrace ==
  /\ l = Len(Evs) + 1
  /\ PrintT("VERDICT|" \o Traces[tr].id \o "|" \o ToString(bad))
  /\ IF tr < Len(Traces)
     THEN /\ tr' = tr + 1 /\ l' = 1 /\ prog' = Programs[Traces[tr + 1].prog] /\ evs' = Traces[tr + 1].evs
          /\ begun' = {} /\ ended' = {} /\ dead' = <<>> /\ ret' = NoRet /\ bad' = {}
     ELSE /\ l' = l + 1 /\ UNCHANGED <<tr, prog, evs, mvars>>

TNext == Consume \/ NextTrace
TSpec == TInit /\ [][TNext]_tvars
AllConsumed == tr = Len(Traces) /\ l = Len(Evs) + 2
Accepted == <>AllConsumed
=============================================================================
