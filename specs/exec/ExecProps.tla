---------------------------- MODULE ExecProps ----------------------------
(***************************************************************************)
(* The listed executor properties (C01 C02 C03 C06 C07 C13 C14) as a       *)
(* monitor over OBSERVABLE events only:                                    *)
(*   B(probe)  a generated command started   (its write reached Stdout)    *)
(*   E(probe)  that command finished         (the harness released it)     *)
(*   R(ret)    Executor.Run returned                                       *)
(*   Q(set)    quiescent snapshot of the blocked probes                    *)
(*   DL        quiescent, Run not returned, nothing blocked = deadlock     *)
(* Nothing here describes HOW the executor works; the monitor accepts      *)
(* every event sequence and only ever adds tagged violations to `bad`.     *)
(* The static program (Programs[prog]) gives the meaning of the events.    *)
(*                                                                         *)
(* A probe instance is [p, t, i, item, v, xc]:                             *)
(*   p    printed call path, a sequence of segments <<kind, idx, item>>    *)
(*        kind "r" root call, "d" dep, "c" cmds entry, "w" when_changed    *)
(*        (a when_changed task prints <<"w", task, V>> as its whole path)  *)
(*   t    task name, i declared cmds index, item for-loop item,            *)
(*   v    the value of V the task rendered, xc rendered EXIT_CODE          *)
(***************************************************************************)
EXTENDS Naturals, Sequences, FiniteSets, SequencesExt, TLC

CONSTANT Programs
VARIABLES prog,   \* the program being executed (one element of Programs)
          begun, ended, dead, ret, bad

mvars == <<begun, ended, dead, ret, bad>>

Fuel == 6
Prog == prog      \* the program under consideration (a record of Programs)
T(t) == Prog.tasks[t]
Lim  == Prog.n
NoRet == <<>>

NoCS == [t |-> "", v |-> "", seg |-> <<"", "", "">>]

\* ---------------------------------------------------------------- expansion of for-loops
\* The items of a loop: a list in list order, or a matrix in row-major order of the declared keys
\* (the first key varies slowest); a matrix item is written as the concatenation of its values.
RECURSIVE Product(_)
Product(rows) ==
  IF rows = <<>> THEN <<"">>
  ELSE LET rest == Product(Tail(rows)) IN
       FlattenSeq([i \in 1..Len(Head(rows)) |-> [j \in 1..Len(rest) |-> Head(rows)[i] \o rest[j]]])
Items(x) == IF x.mat # <<>> THEN Product(x.mat) ELSE x.for

\* A declared call site yields one call per for item, in order; the item is passed as V.
ExpCS(cs, j, kind) ==
  IF Items(cs) = <<>> THEN << [t |-> cs.t, v |-> cs.v, seg |-> <<kind, ToString(j), "">>] >>
  ELSE [k \in 1..Len(Items(cs)) |-> [t |-> cs.t, v |-> Items(cs)[k], seg |-> <<kind, ToString(j), Items(cs)[k]>>]]

ExpDeps(t) == FlattenSeq([j \in 1..Len(T(t).deps) |-> ExpCS(T(t).deps[j], j, "d")])

ExpCmd(c, i) ==
  CASE c.k = "call"  -> LET xs == ExpCS(c.cs, i, "c") IN
                        [n \in 1..Len(xs) |-> [k |-> "call", x |-> 0, ign |-> FALSE, i |-> i, item |-> xs[n].seg[3], cs |-> xs[n]]]
    [] c.k = "dcall" -> << [k |-> "dcall", x |-> 0, ign |-> FALSE, i |-> i, item |-> "", cs |-> ExpCS(c.cs, i, "c")[1]] >>
    [] c.k = "sh"    -> IF Items(c) = <<>> THEN << [k |-> "sh", x |-> c.x, ign |-> c.ign, i |-> i, item |-> "", cs |-> NoCS] >>
                        ELSE [n \in 1..Len(Items(c)) |-> [k |-> "sh", x |-> c.x, ign |-> c.ign, i |-> i, item |-> Items(c)[n], cs |-> NoCS]]
    [] c.k = "dsh"   -> << [k |-> "dsh", x |-> c.x, ign |-> c.ign, i |-> i, item |-> "", cs |-> NoCS] >>

\* The entries of one execution of task t, in the order in which they must be processed.
ExpCmds(t) == FlattenSeq([i \in 1..Len(T(t).cmds) |-> ExpCmd(T(t).cmds[i], i)])

ResolveV(csv, callerV) == IF csv = "$" THEN callerV ELSE csv

IsDedup(t) == T(t).run # "always"

\* printed path of a callee: when_changed tasks print <<"w", task, V>>
ChildPP(pp, cs, vv) == IF T(cs.t).run = "when_changed" THEN << <<"w", cs.t, vv>> >> ELSE Append(pp, cs.seg)

\* ---------------------------------------------------------------- what a printed path means
NotOk == [ok |-> FALSE, t |-> "", v |-> "", viaDefer |-> FALSE]

RECURSIVE WalkFrom(_, _, _, _, _)
WalkFrom(t, v, pp, k, vd) ==
  IF k > Len(pp) THEN [ok |-> TRUE, t |-> t, v |-> v, viaDefer |-> vd]
  ELSE LET seg == pp[k]
           ds  == {cs \in Range(ExpDeps(t)) : cs.seg = seg}
           cs_ == {e \in Range(ExpCmds(t)) : e.k \in {"call", "dcall"} /\ e.cs.seg = seg}
       IN IF seg[1] = "d" /\ ds # {}
          THEN LET cs == CHOOSE c \in ds : TRUE IN WalkFrom(cs.t, ResolveV(cs.v, v), pp, k + 1, vd)
          ELSE IF seg[1] = "c" /\ cs_ # {}
          THEN LET e == CHOOSE c \in cs_ : TRUE IN WalkFrom(e.cs.t, ResolveV(e.cs.v, v), pp, k + 1, vd \/ e.k = "dcall")
          ELSE NotOk

\* Walk(pp) = the task and the value of V that the activation printed as pp must have.
Walk(pp) ==
  IF pp = <<>> THEN NotOk
  ELSE LET h == pp[1] IN
       IF h[1] = "r" THEN LET ks == {k \in 1..Len(Prog.roots) : ToString(k) = h[2]} IN
                          IF ks = {} THEN NotOk
                          ELSE LET k == CHOOSE k \in ks : TRUE IN WalkFrom(Prog.roots[k].t, Prog.roots[k].v, pp, 2, FALSE)
       ELSE IF h[1] = "w" /\ h[2] \in DOMAIN Prog.tasks THEN WalkFrom(h[2], h[3], pp, 2, FALSE)
       ELSE NotOk

\* ---------------------------------------------------------------- guards (C13)
GuardFails(t, v, isRoot) ==
  LET g == T(t).guard IN
  \/ g \in {"requires", "requires2"}
  \/ g = "enum" /\ v # "one"
  \/ g = "precond"
  \/ g = "prompt" /\ ~Prog.yes
  \/ g = "internal" /\ isRoot

GuardCode(t, v) ==
  LET g == T(t).guard IN
  CASE g \in {"requires", "requires2"} -> 206
    [] g = "enum"     -> 207          \* V is always passed (possibly empty): outside the enum, not missing
    [] g = "precond"  -> 1
    [] g = "prompt"   -> 205
    [] g = "internal" -> 202
    [] OTHER          -> 0

\* ---------------------------------------------------------------- successful completion
\* Can an execution of (t, v) finish successfully at all?  FALSE only when certainly not.
RECURSIVE CanSucceed(_, _, _)
CanSucceed(t, v, fuel) ==
  IF fuel = 0 \/ v = "*" THEN TRUE
  ELSE IF T(t).guard \in {"platform", "platreq"} THEN TRUE
  ELSE /\ ~GuardFails(t, v, FALSE)
       /\ \A d \in Range(ExpDeps(t)) : CanSucceed(d.t, ResolveV(d.v, v), fuel - 1)
       /\ \/ T(t).guard = "uptodate"
          \/ T(t).ign
          \/ \A e \in Range(ExpCmds(t)) :
               CASE e.k = "sh"   -> e.x = 0 \/ e.ign
                 [] e.k = "call" -> CanSucceed(e.cs.t, ResolveV(e.cs.v, v), fuel - 1)
                 [] OTHER        -> TRUE

\* Req(t, v, pp): probe patterns that have all ended once an execution of (t, v) printed at pp
\* has completed successfully.  pp = <<>> : the printed path is not determined (the execution is
\* shared, its path is that of whoever came first); v = "*" : V not determined.
RECURSIVE Req(_, _, _, _)
Req(t, v, pp, fuel) ==
  IF fuel = 0 \/ T(t).guard \in {"platform", "platreq"} THEN {}
  ELSE LET own == IF T(t).guard = "uptodate" THEN {}
                  ELSE { [p |-> pp, t |-> t, i |-> e.i, item |-> e.item,
                          v |-> IF T(t).run = "once" THEN "*" ELSE v] :
                            e \in {e \in Range(ExpCmds(t)) : e.k \in {"sh", "dsh"}} }
           sub(cs) == LET vv == IF T(t).run = "once" /\ cs.v = "$" THEN "*" ELSE ResolveV(cs.v, v)
                          cp == IF T(cs.t).run = "when_changed"
                                THEN (IF vv = "*" THEN <<>> ELSE << <<"w", cs.t, vv>> >>)
                                ELSE IF T(cs.t).run = "once" \/ pp = <<>> THEN <<>>
                                ELSE Append(pp, cs.seg)
                      IN Req(cs.t, vv, cp, fuel - 1)
           deps  == UNION { sub(d) : d \in Range(ExpDeps(t)) }
           calls == IF T(t).ign \/ T(t).guard = "uptodate" THEN {}
                    ELSE UNION { sub(e.cs) : e \in {e \in Range(ExpCmds(t)) : e.k = "call"} }
       IN own \cup deps \cup calls

Matched(pat, S) ==
  \E e \in S : /\ e.t = pat.t /\ e.i = pat.i /\ e.item = pat.item
               /\ (pat.p = <<>> \/ e.p = pat.p)
               /\ (pat.v = "*" \/ e.v = pat.v)

Running == begun \ ended

\* the referenced execution (callee cs of an activation printed at pp with V = v) has finished
\* successfully: it can succeed, everything it must have run has ended, nothing of it is running
RefPP(pp, cs, vv) == IF T(cs.t).run = "when_changed" THEN << <<"w", cs.t, vv>> >>
                     ELSE IF T(cs.t).run = "once" THEN <<>> ELSE Append(pp, cs.seg)

NothingRunning(pp, cs, vv) ==
  LET cp == RefPP(pp, cs, vv) IN
  \A r \in Running : IF cp # <<>> THEN ~IsPrefix(cp, r.p) ELSE r.t # cs.t

RefDone(pp, v, cs) ==
  LET vv == ResolveV(cs.v, v) IN
  /\ CanSucceed(cs.t, vv, Fuel)
  /\ \A pat \in Req(cs.t, vv, RefPP(pp, cs, vv), Fuel) : Matched(pat, ended)
  /\ NothingRunning(pp, cs, vv)

\* ---------------------------------------------------------------- per-event checks
Viol(prop, sig) == [prop |-> prop, sig |-> sig]

Key(ev) == [p |-> ev.p, t |-> ev.t, i |-> ev.i, item |-> ev.item]
KeysOf(S) == {Key(e) : e \in S}
PKey(pp, t, e) == [p |-> pp, t |-> t, i |-> e.i, item |-> e.item]

EntryPos(ev) == LET es == ExpCmds(ev.t) IN
  {k \in 1..Len(es) : es[k].i = ev.i /\ es[k].item = ev.item /\ es[k].k \in {"sh", "dsh"}}

\* a defer entry at position k of activation (pp, t) has certainly been reached
Reached(pp, t, k) ==
  LET es == ExpCmds(t) IN
  \/ PKey(pp, t, es[k]) \in KeysOf(begun)
  \/ \E k2 \in (k + 1)..Len(es) : es[k2].k = "sh" /\ PKey(pp, t, es[k2]) \in KeysOf(begun)

\* C01: every dep of the task has finished successfully
C01Viol(ev) ==
  { Viol("C01", IF IsDedup(d.t) THEN "dedup-dep" ELSE "plain-dep") :
      d \in { d \in Range(ExpDeps(ev.t)) : ~RefDone(ev.p, ev.v, d) } }

\* C02 / C14: position of this entry relative to the other entries of the same activation
C02Viol(ev) ==
  LET es == ExpCmds(ev.t) ks == EntryPos(ev) IN
  IF ks = {} THEN {Viol("C02", "unknown-entry")}
  ELSE LET k == CHOOSE k \in ks : TRUE
           isDefer == es[k].k = "dsh"
           w == Walk(ev.p)
       IN
       \* the callee sees the path and variables of its call site
       (IF ~w.ok \/ w.t # ev.t \/ (T(ev.t).run # "once" /\ w.v # ev.v)
        THEN {Viol(IF w.ok /\ w.viaDefer THEN "C14" ELSE "C02", IF w.ok /\ w.viaDefer THEN "defer-call-vars" ELSE "call-vars")} ELSE {})
       \cup
       \* one at a time
       (IF \E r \in Running : r.p = ev.p /\ r.t = ev.t THEN {Viol("C02", "overlap")} ELSE {})
       \cup
       (IF Key(ev) \in KeysOf(begun) /\ ~IsDedup(ev.t) THEN {Viol(IF isDefer THEN "C14" ELSE "C02", "twice")} ELSE {})
       \cup
       (IF ~isDefer THEN
          \* earlier entries are complete
          { Viol("C02", "earlier-sh-not-finished") : k1 \in {k1 \in 1..(k-1) : es[k1].k = "sh" /\ PKey(ev.p, ev.t, es[k1]) \notin KeysOf(ended)} }
          \cup
          { Viol("C02", IF IsDedup(es[k1].cs.t) THEN "call-not-finished-dedup" ELSE "call-not-finished") :
              k1 \in {k1 \in 1..(k-1) : es[k1].k = "call" /\
                        ~(IF T(ev.t).ign THEN NothingRunning(ev.p, es[k1].cs, ResolveV(es[k1].cs.v, ev.v))
                          ELSE RefDone(ev.p, ev.v, es[k1].cs))} }
          \cup
          \* later entries have not started
          { Viol("C02", "later-entry-started") :
              k2 \in {k2 \in (k+1)..Len(es) :
                        \/ es[k2].k = "sh" /\ PKey(ev.p, ev.t, es[k2]) \in KeysOf(begun)
                        \/ es[k2].k = "call" /\ ~IsDedup(es[k2].cs.t) /\
                             \E b \in begun : IsPrefix(Append(ev.p, es[k2].cs.seg), b.p)} }
        ELSE
          \* C14: a deferred command runs after the last ordinary command, in reverse order
          (IF \E r \in Running : IsPrefix(ev.p, r.p) /\ ~IsDedup(r.t) THEN {Viol("C14", "defer-while-running")} ELSE {})
          \cup
          { Viol("C14", "defer-order") :
              k2 \in {k2 \in 1..Len(es) : es[k2].k = "dsh" /\
                        \/ k2 > k /\ Reached(ev.p, ev.t, k2) /\ PKey(ev.p, ev.t, es[k2]) \notin KeysOf(ended)
                        \/ k2 < k /\ PKey(ev.p, ev.t, es[k2]) \in KeysOf(begun)} }
          \cup
          (LET d == IF ev.p \in DOMAIN dead /\ ~dead[ev.p].viaDep THEN dead[ev.p] ELSE [xs |-> {}, sure |-> TRUE]
               \* a failure below a when_changed task is tracked under that task's own printed path;
               \* whom it stops further up is not known to the monitor
               \* ... and the failure of a shared (deduplicated) execution is observed, with its exit code, by every
               \* task that references it, directly or through its callees, wherever that execution printed
               untracked == UNION {dead[p].xs : p \in {p \in DOMAIN dead : p[1][1] = "w" \/ (Walk(p).ok /\ IsDedup(Walk(p).t))}}
               ok == \/ d.xs = {} /\ ev.xc = ""
                     \/ d.xs = {} /\ \E x \in untracked : ev.xc = ToString(x)
                     \/ \E x \in d.xs : ev.xc = ToString(x)
                     \/ d.xs # {} /\ ~d.sure /\ ev.xc = ""
           IN IF ~ok THEN {Viol("C14", "exit-code")} ELSE {}))

\* C03: nothing (but deferred commands) starts in an activation that a failure has stopped
\* the execution of a deduplicated task (for these variable values) contains a failing, non-ignored command
FailedShared(t, vv) ==
  \E e \in ended : /\ e.t = t /\ (T(t).run = "once" \/ e.v = vv)
                     /\ LET ks == EntryPos(e) IN ks # {} /\
                         LET x == ExpCmds(t)[CHOOSE k \in ks : TRUE] IN x.k = "sh" /\ x.x # 0 /\ ~x.ign /\ ~T(t).ign

C03Shared(ev) ==
  LET es == ExpCmds(ev.t) ks == EntryPos(ev) IN
  { Viol("C03", "continued-after-failure-of-shared-dependency") :
      d \in { d \in Range(ExpDeps(ev.t)) : IsDedup(d.t) /\ FailedShared(d.t, ResolveV(d.v, ev.v)) } }
  \cup
  (IF ks = {} \/ T(ev.t).ign THEN {}
   ELSE LET k == CHOOSE k \in ks : TRUE IN
        { Viol("C03", "continued-after-failure-of-shared-callee") :
            k1 \in {k1 \in 1..(k-1) : es[k1].k = "call" /\ es[k].k = "sh" /\ IsDedup(es[k1].cs.t)
                                       /\ FailedShared(es[k1].cs.t, ResolveV(es[k1].cs.v, ev.v))} })

C03Viol(ev) ==
  C03Shared(ev) \cup
  LET ks == EntryPos(ev) IN
  IF ks # {} /\ ExpCmds(ev.t)[CHOOSE k \in ks : TRUE].k = "sh" /\ ev.p \in DOMAIN dead
  THEN {Viol("C03", IF dead[ev.p].own THEN "continued-after-own-failure" ELSE "continued-after-callee-failure")}
  ELSE {}

\* C06: number of executions
\* a reference to a deduplicated task whose execution (for these variable values) has not
\* completed successfully when the referencing task goes on
C06Missing(ev) ==
  LET es == ExpCmds(ev.t) ks == EntryPos(ev) IN
  { Viol("C06", "referenced-execution-not-complete") :
      d \in { d \in Range(ExpDeps(ev.t)) : IsDedup(d.t) /\ ~RefDone(ev.p, ev.v, d) } }
  \cup
  (IF ks = {} THEN {}
   ELSE LET k == CHOOSE k \in ks : TRUE IN
        { Viol("C06", "referenced-execution-not-complete") :
            k1 \in {k1 \in 1..(k-1) : es[k1].k = "call" /\ es[k].k = "sh" /\ IsDedup(es[k1].cs.t) /\ ~T(ev.t).ign /\ ~RefDone(ev.p, ev.v, es[k1].cs)} })

C06Viol(ev) ==
  C06Missing(ev) \cup
  CASE T(ev.t).run = "once" ->
         IF \E b \in begun : b.t = ev.t /\ (b.p # ev.p \/ (b.i = ev.i /\ b.item = ev.item))
         THEN {Viol("C06", "once-twice")} ELSE {}
    [] T(ev.t).run = "when_changed" ->
         IF \E b \in begun : b.t = ev.t /\ b.v = ev.v /\ b.i = ev.i /\ b.item = ev.item
         THEN {Viol("C06", "when_changed-twice")} ELSE {}
    [] OTHER -> {}

\* C07a: at most N tasks execute commands
C07Viol(ev) == IF Lim > 0 /\ Cardinality(Running) + 1 > Lim THEN {Viol("C07", "limit-exceeded")} ELSE {}

\* C13: no command of a guarded task
C13Viol(ev) ==
  LET isRoot == Len(ev.p) = 1 /\ ev.p[1][1] = "r"
      es == ExpCmds(ev.t) ks == EntryPos(ev) IN
  (IF GuardFails(ev.t, ev.v, isRoot) THEN {Viol("C13", T(ev.t).guard)}
   ELSE IF T(ev.t).guard \in {"platform", "platreq"} THEN {Viol("C13", "platform")}
   ELSE {})
  \cup
  \* "the calling task fails too": after a task call whose callee's guard fails no later command of the caller
  \* starts - whatever the caller ignores (ignore_error is about exit statuses, a failed guard is not one)
  (IF ks = {} THEN {}
   ELSE LET k == CHOOSE k \in ks : TRUE IN
        { Viol("C13", "caller-continued-after-guard-of-callee") :
            k1 \in {k1 \in 1..(k-1) : es[k1].k = "call" /\ es[k].k = "sh"
                                       /\ GuardFails(es[k1].cs.t, ResolveV(es[k1].cs.v, ev.v), FALSE)} })

BeginViol(ev) == C01Viol(ev) \cup C02Viol(ev) \cup C03Viol(ev) \cup C06Viol(ev) \cup C07Viol(ev) \cup C13Viol(ev)

\* ---------------------------------------------------------------- failure propagation (C03)
\* A failing, non-ignored command stops its activation and every activation that called it or
\* depends on it, up to (not including) a caller whose task-level ignore_error swallows it or a
\* deferred call.  dead[pp] = [x: the exit code, own: the failing command is pp's own,
\* viaDep: it arrived through a deps edge (then no command of pp ever ran, no EXIT_CODE)].
RECURSIVE Prop(_, _, _, _, _)
Prop(pp, x, own, viaDep, sure) ==
  LET self == pp :> [xs |-> {x}, own |-> own, viaDep |-> viaDep, sure |-> sure] IN
  IF Len(pp) <= 1 THEN self
  ELSE LET par == Front(pp) seg == Last(pp) w == Walk(par) IN
       IF ~w.ok THEN self
       ELSE IF seg[1] = "d" THEN self @@ Prop(par, x, FALSE, TRUE, sure)
       ELSE LET es == {e \in Range(ExpCmds(w.t)) : e.k \in {"call", "dcall"} /\ e.cs.seg = seg} IN
            IF es = {} THEN self
            ELSE LET e == CHOOSE e \in es : TRUE IN
                 IF e.k = "dcall" \/ T(w.t).ign THEN self
                 ELSE self @@ Prop(par, x, FALSE, FALSE, sure)

\* A command that was still running when its context got cancelled ends with the cancellation
\* instead of its own exit status; that can only happen after an earlier failure (or a failing
\* guard), so only the first failure of a guard-free program is `sure` to carry its own code.
AnyGuard == \E t \in DOMAIN Prog.tasks : T(t).guard \notin {"none", "uptodate", "platform", "platreq"}

\* a caller that shares a deduplicated execution observes that execution's outcome, which may be
\* "cancelled" (not an exit status) when the failure happened next to the first caller
HasDedup == \E t \in DOMAIN Prog.tasks : T(t).run # "always"

MergeDead(old, new) ==
  [pp \in DOMAIN old \cup DOMAIN new |->
     IF pp \in DOMAIN old /\ pp \in DOMAIN new THEN [old[pp] EXCEPT !.xs = @ \cup new[pp].xs]
     ELSE IF pp \in DOMAIN old THEN old[pp] ELSE new[pp]]

EndDead(ev) ==
  LET ks == EntryPos(ev) IN
  IF ks = {} THEN dead
  ELSE LET e == ExpCmds(ev.t)[CHOOSE k \in ks : TRUE] IN
       IF e.k = "sh" /\ e.x # 0 /\ ~e.ign /\ ~T(ev.t).ign
       THEN MergeDead(dead, Prop(ev.p, e.x, TRUE, FALSE, DOMAIN dead = {} /\ ~AnyGuard))
       ELSE dead

\* ---------------------------------------------------------------- cyclic references (C07d)
Refs(t) == {T(t).deps[j].t : j \in 1..Len(T(t).deps)} \cup {T(t).cmds[i].cs.t : i \in {i \in 1..Len(T(t).cmds) : T(t).cmds[i].k \in {"call", "dcall"}}}
RECURSIVE ReachFrom(_, _)
ReachFrom(S, n) == IF n = 0 THEN S ELSE ReachFrom(S \cup UNION {Refs(t) : t \in S}, n - 1)
OnCycleT(t) == t \in ReachFrom(Refs(t), Cardinality(DOMAIN Prog.tasks))
Cyclic == \E t \in DOMAIN Prog.tasks : OnCycleT(t)
CycleThroughDedup == \E t \in DOMAIN Prog.tasks : OnCycleT(t) /\ T(t).run # "always"

\* ---------------------------------------------------------------- return of Run (C03 C07 C13 C14)
RootDead == {p \in DOMAIN dead : Len(p) = 1 /\ p[1][1] = "r"}

\* witness shape for the guard exit codes: a single root call whose task is guarded (and has no
\* deps when the guard is evaluated after them), or whose only dep is such a task
GuardWitness ==
  IF Len(Prog.roots) # 1 THEN 0
  ELSE LET r == Prog.roots[1] t == r.t IN
       IF GuardFails(t, r.v, TRUE) /\ (T(t).guard \in {"requires", "requires2", "enum", "internal"} \/ T(t).deps = <<>>)
       THEN GuardCode(t, r.v)
       ELSE IF T(t).guard \in {"none"} /\ Len(ExpDeps(t)) = 1
       THEN LET d == ExpDeps(t)[1] vv == ResolveV(d.v, r.v) IN
            IF GuardFails(d.t, vv, FALSE) /\ (T(d.t).guard \in {"requires", "requires2", "enum"} \/ T(d.t).deps = <<>>)
            THEN GuardCode(d.t, vv) ELSE 0
       ELSE 0

\* exit codes of failures the monitor cannot attribute to a caller: those below a when_changed task (tracked under
\* that task's own printed path) and those of shared executions (observed by every task that references them)
UntrackedCodes == UNION {dead[p].xs : p \in {p \in DOMAIN dead : p[1][1] = "w" \/ (Walk(p).ok /\ IsDedup(Walk(p).t))}}

RetViol(r) ==
  (IF Running # {} THEN {Viol("C07", "returned-while-running")} ELSE {})
  \cup
  \* cyclic references end with the "called too many times" error (204), or a task-run error (201)
  \* wrapping it when the cycle goes through task: commands
  (IF Cyclic /\ r.code \notin {204, 201} THEN {Viol("C07", "cycle-not-reported")} ELSE {})
  \cup
  (IF RootDead # {} /\ r.code = 0 THEN {Viol("C03", "failure-lost")} ELSE {})
  \cup
  (IF RootDead # {} /\ r.code # 0 /\ ~AnyGuard /\
      ~(r.code = 201 /\ (r.xcode \in (UNION {dead[p].xs : p \in RootDead}) \cup UntrackedCodes \/ (r.xcode = 201 /\ (HasDedup \/ \E p \in DOMAIN dead : ~dead[p].sure))))
   THEN {Viol("C03", IF \A p \in RootDead : dead[p].viaDep THEN "status-of-dep-failure" ELSE "status")} ELSE {})
  \cup
  (IF DOMAIN dead = {} /\ ~AnyGuard /\ ~Cyclic /\ r.code # 0 /\ r.code # 204 THEN {Viol("C03", "spurious-error")} ELSE {})
  \cup
  \* every failure was swallowed by an ignore_error on the way up: the final status is unaffected
  (IF DOMAIN dead # {} /\ RootDead = {} /\ ~AnyGuard /\ ~HasDedup /\ r.code # 0 /\ r.code # 204
   THEN {Viol("C03", "ignored-failure-affects-status")} ELSE {})
  \cup
  (IF GuardWitness # 0 /\ begun = {} /\ r.code # GuardWitness THEN {Viol("C13", "guard-status")} ELSE {})
  \cup
  \* a task that is not for this platform is skipped silently and successfully, whatever else it requires
  (IF Len(Prog.roots) = 1 /\ T(Prog.roots[1].t).guard \in {"platform", "platreq"} /\ r.code # 0
   THEN {Viol("C13", "platform-skip-not-silent")} ELSE {})
  \cup
  (IF Len(Prog.roots) = 1 /\ T(Prog.roots[1].t).guard = "none" /\ ~AnyGuard /\ DOMAIN dead = {} /\ r.code # 0 /\ r.code # 204
      /\ \E t \in DOMAIN Prog.tasks : T(t).guard \in {"platform", "platreq"}
   THEN {Viol("C13", "platform-skip-not-silent")} ELSE {})
  \cup
  { Viol("C14", "defer-not-run") :
      b \in { b \in begun : \E k \in 1..Len(ExpCmds(b.t)) :
                 /\ ExpCmds(b.t)[k].k = "dsh" /\ ~IsDedup(b.t)
                 /\ Reached(b.p, b.t, k) /\ PKey(b.p, b.t, ExpCmds(b.t)[k]) \notin KeysOf(ended) } }
  \cup
  \* a deferred task call that was reached has run: the called task (unguarded, without deps, not shared, its
  \* first entry a command) has started at the path of that call
  { Viol("C14", "defer-call-not-run") :
      b \in { b \in begun : ~Cyclic /\ ~IsDedup(b.t) /\ \E k \in 1..Len(ExpCmds(b.t)) :
                 LET e == ExpCmds(b.t)[k] IN
                 /\ e.k = "dcall" /\ Reached(b.p, b.t, k)
                 /\ ~IsDedup(e.cs.t) /\ T(e.cs.t).guard = "none" /\ ExpDeps(e.cs.t) = <<>>
                 /\ ExpCmds(e.cs.t) # <<>> /\ ExpCmds(e.cs.t)[1].k \in {"sh", "dsh"}
                 /\ ~\E x \in begun : IsPrefix(Append(b.p, e.cs.seg), x.p) } }

\* C07c witness: a single root whose deps are k distinct plain tasks (no deps, no guard, first
\* entry a shell command): before anything is released, min(k, N) of them are executing.
FanoutK ==
  IF Len(Prog.roots) # 1 THEN 0
  ELSE LET t == Prog.roots[1].t ds == ExpDeps(t) IN
       IF /\ T(t).guard = "none" /\ Len(ds) >= 2
          /\ \A j \in 1..Len(ds) : LET d == T(ds[j].t) IN
                /\ d.deps = <<>> /\ d.guard = "none" /\ d.run = "always"
                /\ Len(d.cmds) > 0 /\ d.cmds[1].k = "sh" /\ Items(d.cmds[1]) = <<>>
       THEN Len(ds) ELSE 0

\* C07c, general witness: before anything is released, the commands that can start are the first
\* entries of the "leaves" (tasks without deps, reached through deps and first-entry calls); a
\* deduplicated task counts once.  Defined only for programs in which every reachable task is
\* unguarded and starts with a shell command or a task call (else 0 = no statement).
RECURSIVE Leaves(_, _, _, _)
Leaves(t, v, key, fuel) ==
  IF fuel = 0 THEN {<<"?">>}
  ELSE LET tk == T(t)
           k2 == IF tk.run = "once" THEN <<"o", t>> ELSE IF tk.run = "when_changed" THEN <<"h", t, v>> ELSE key
           es == ExpCmds(t)
       IN IF tk.guard # "none" \/ es = <<>> \/ es[1].k \notin {"sh", "call"} THEN {<<"?">>}
          ELSE IF ExpDeps(t) # <<>>
          THEN UNION { Leaves(d.t, ResolveV(d.v, v), Append(k2, d.seg), fuel - 1) : d \in Range(ExpDeps(t)) }
          ELSE IF es[1].k = "sh" THEN {k2}
          ELSE Leaves(es[1].cs.t, ResolveV(es[1].cs.v, v), Append(k2, es[1].cs.seg), fuel - 1)

InitialWidth ==
  IF Len(Prog.roots) # 1 THEN 0
  ELSE LET L == Leaves(Prog.roots[1].t, Prog.roots[1].v, <<"r">>, Fuel) IN
       IF <<"?">> \in L THEN 0 ELSE Cardinality(L)

QViol(set) ==
  IF FanoutK > 0 /\ ended = {}
  THEN LET want == IF Lim = 0 \/ Lim > FanoutK THEN FanoutK ELSE Lim IN
       IF Cardinality(set) < want THEN {Viol("C07", "lost-concurrency")}
       ELSE IF Cardinality(set) > want THEN {Viol("C07", "limit-exceeded")} ELSE {}
  ELSE IF InitialWidth > 0 /\ ended = {}
  THEN LET want == IF Lim = 0 \/ Lim > InitialWidth THEN InitialWidth ELSE Lim IN
       IF Cardinality(set) < want THEN {Viol("C07", "lost-concurrency")}
       ELSE IF Cardinality(set) > want THEN {Viol("C07", "more-running-than-startable")} ELSE {}
  ELSE {}

\* ---------------------------------------------------------------- monitor transitions
MonInit == begun = {} /\ ended = {} /\ dead = <<>> /\ ret = NoRet /\ bad = {}

OnBegin(ev) == /\ bad' = bad \cup BeginViol(ev)
               /\ begun' = begun \cup {ev}
               /\ UNCHANGED <<ended, dead, ret>>

OnEnd(ev) == /\ ended' = ended \cup {ev}
             /\ dead' = EndDead(ev)
             /\ UNCHANGED <<begun, ret, bad>>

OnRet(r) == /\ ret' = r
            /\ bad' = bad \cup RetViol(r)
            /\ UNCHANGED <<begun, ended, dead>>

OnQ(set) == /\ bad' = bad \cup QViol(set)
            /\ UNCHANGED <<begun, ended, dead, ret>>

\* a deadlock after a command has failed also means that the failure never became an exit status (C03)
OnDL == /\ bad' = bad \cup {Viol("C07", IF CycleThroughDedup THEN "deadlock:cycle-through-deduplicated-task" ELSE "deadlock")}
                      \cup (IF DOMAIN dead # {} /\ ~CycleThroughDedup THEN {Viol("C03", "no-exit-status-after-failure")} ELSE {})
        /\ UNCHANGED <<begun, ended, dead, ret>>

MonUnchanged == UNCHANGED mvars

\* The invariants the design is model-checked against
Inv_NoViolation == bad = {}
Inv_C01 == \A b \in bad : b.prop # "C01"
Inv_C02 == \A b \in bad : b.prop # "C02"
Inv_C03 == \A b \in bad : b.prop # "C03"
Inv_C06 == \A b \in bad : b.prop # "C06"
Inv_C07 == \A b \in bad : b.prop # "C07"
Inv_C13 == \A b \in bad : b.prop # "C13"
Inv_C14 == \A b \in bad : b.prop # "C14"
=============================================================================
