------------------------------- MODULE Exec -------------------------------
(***************************************************************************)
(* Model of the go-task executor: Executor.Run, RunTask, runDeps,          *)
(* runCommand, runDeferred, startExecution and the concurrency semaphore   *)
(* (task.go, concurrency.go, hash.go), one action per critical section.    *)
(*                                                                         *)
(* The observable events (command begin / end, return of Run) drive the    *)
(* property monitor of ExecProps.  Behaviour of the pinned implementation  *)
(* that deviates from the intended design is modelled by alternatives      *)
(* that are enabled only when their name is in the constant KF:            *)
(*   "DedupWaitCtx"     a caller that finds a deduplicated task already    *)
(*                      registered waits for the registrant's *context*    *)
(*                      and returns nil (startExecution)                   *)
(*   "DepErrUnwrapped"  an error of runDeps is returned as is, also by a   *)
(*                      directly called task                               *)
(*   "ForceSkipsPrecond" --force skips the preconditions                   *)
(*   "VarsBlindHash"    run: when_changed hash ignores variables that do   *)
(*                      not reach the command text                         *)
(*   "DeferCallVarsRaw" vars of a deferred task call are not templated     *)
(***************************************************************************)
EXTENDS ExecProps

CONSTANTS KF, MaxCalls

VARIABLES act,        \* call path -> activation record
          sem,        \* concurrency slots in use
          exec,       \* deduplication table: key -> [owner, fin, err]
          cancelled,  \* set of explicitly cancelled contexts
          calls,      \* task -> number of calls so far (taskCallCount)
          root        \* state of Executor.Run itself

svars == <<act, sem, exec, cancelled, calls, root>>
vars  == <<prog, svars, mvars>>

\* ------------------------------------------------------------------ errors
NoErr == [k |-> "none", c |-> 0, w |-> FALSE]
Err(k, c) == [k |-> k, c |-> c, w |-> FALSE]     \* k: exit | code | generic | cancel
IsErr(e) == e.k # "none"
Wrap(e) == [e EXCEPT !.w = TRUE]                   \* errors.TaskRunError{Err: e}

RetOf(e) ==
  IF ~IsErr(e) THEN [class |-> "nil", code |-> 0, xcode |-> 0]
  ELSE IF e.w THEN [class |-> "TaskRunError", code |-> 201, xcode |-> IF e.k = "exit" THEN e.c ELSE 201]
  ELSE IF e.k = "code" THEN [class |-> "TaskError", code |-> e.c, xcode |-> e.c]
  ELSE [class |-> "error", code |-> 1, xcode |-> 1]

\* ------------------------------------------------------------------ contexts
\* <<"g0">>        errgroup context of Run
\* <<"g", p>>      errgroup context of runDeps of activation p
\* <<"x", p>>      cancelable context of a registered (deduplicated) execution
\* <<"bg">>        context.Background() of runDeferred
ExecCtx(p) == IF act[p].owner THEN <<"x", p>> ELSE act[p].ctx

RECURSIVE IsCancelledN(_, _)
IsCancelledN(c, n) ==
  \/ c \in cancelled
  \/ /\ n > 0
     /\ CASE c[1] = "g" -> IsCancelledN(IF act[c[2]].owner THEN <<"x", c[2]>> ELSE act[c[2]].ctx, n - 1)
          [] c[1] = "x" -> IsCancelledN(act[c[2]].ctx, n - 1)
          [] OTHER      -> FALSE
IsCancelled(c) == IsCancelledN(c, 24)

\* ------------------------------------------------------------------ helpers
Paths == DOMAIN act
Es(p) == ExpCmds(act[p].task)

NewAct(t, v, pp, ctx, ind) ==
  [task |-> t, v |-> v, pp |-> pp, ctx |-> ctx, ind |-> ind, pc |-> "enter", i |-> 1,
   err |-> NoErr, wait |-> <<>>, owner |-> FALSE, ds |-> <<>>, xc |-> 0, gerr |-> NoErr]

SlotFree == Lim = 0 \/ sem < Lim
Take == sem' = IF Lim = 0 THEN sem ELSE sem + 1
Give == sem' = IF Lim = 0 THEN sem ELSE sem - 1

\* pinned code: the hash of a when_changed task covers the rendered command text but not its
\* variables; V is invisible to it when it only reaches env or deferred (lazily rendered) commands
HashBlind(t) == T(t).vuse = "env" \/ \A e \in Range(ExpCmds(t)) : e.k # "sh"

\* run: once is keyed by the DEFINITION (Taskfile location + local name, internal/hash.Name): a file included under
\* several namespaces contributes one once-task per definition, not one per namespace.  The harness projects the
\* copies n:x, m:x of such a definition on one task name before the program and the trace reach this model.
KeyOf(t, v) ==
  CASE T(t).run = "always" -> <<>>
    [] T(t).run = "once"   -> <<"o", t>>
    [] OTHER               -> <<"h", t, IF HashBlind(t) /\ "VarsBlindHash" \in KF THEN "" ELSE v>>

\* registration of defer: entries is invisible; Adv skips them, pushing them on the stack
RECURSIVE Adv(_, _, _)
Adv(es, i, ds) ==
  IF i <= Len(es) /\ es[i].k \in {"dsh", "dcall"} THEN Adv(es, i + 1, <<i>> \o ds)
  ELSE [i |-> i, ds |-> ds]

\* activation record after entry i has completed normally
NextEntry(a) == LET n == Adv(ExpCmds(a.task), a.i + 1, a.ds) IN [a EXCEPT !.pc = "cmd", !.i = n.i, !.ds = n.ds]

\* activation record after entry i has returned error e  (task.go: the cmds loop)
Fail(a, e) ==
  IF e.k = "exit" /\ T(a.task).ign THEN NextEntry(a)
  ELSE [a EXCEPT !.pc = "defers",
                 !.xc = IF e.k = "exit" THEN e.c ELSE a.xc,
                 !.err = IF a.ind THEN e ELSE Wrap(e)]

ProbeOf(a, e, xc) == [p |-> a.pp, t |-> a.task, i |-> e.i, item |-> e.item, v |-> a.v, xc |-> xc]

RootPP(k) == LET r == Prog.roots[k] IN
  IF T(r.t).run = "when_changed" THEN << <<"w", r.t, r.v>> >> ELSE << <<"r", ToString(k), "">> >>
RootPath(k) == << <<"r", ToString(k), "">> >>

\* ------------------------------------------------------------------ Run
Init ==
  /\ prog \in Range(Programs)
  /\ act = <<>> /\ sem = 0 /\ exec = <<>> /\ cancelled = {}
  /\ calls = [t \in DOMAIN prog.tasks |-> 0]
  /\ root = [st |-> "start", k |-> 0, gerr |-> NoErr]
  /\ MonInit

RootStart ==
  /\ root.st = "start"
  /\ IF \E k \in 1..Len(Prog.roots) : T(Prog.roots[k].t).guard = "internal"
     THEN /\ root' = [root EXCEPT !.st = "done"]
          /\ OnRet(RetOf(Err("code", 202)))
          /\ UNCHANGED <<act, sem, exec, cancelled, calls>>
     ELSE /\ IF Prog.par
             THEN /\ act' = [p \in {RootPath(k) : k \in 1..Len(Prog.roots)} |->
                               LET k == CHOOSE k \in 1..Len(Prog.roots) : RootPath(k) = p IN
                               NewAct(Prog.roots[k].t, Prog.roots[k].v, RootPP(k), <<"g0">>, FALSE)]
                  /\ root' = [root EXCEPT !.st = "join"]
             ELSE /\ act' = (RootPath(1) :> NewAct(Prog.roots[1].t, Prog.roots[1].v, RootPP(1), <<"g0">>, FALSE))
                  /\ root' = [root EXCEPT !.st = "seq", !.k = 1]
          /\ UNCHANGED <<sem, exec, cancelled, calls, mvars>>

RootNext ==
  /\ root.st = "seq"
  /\ act[RootPath(root.k)].pc = "done"
  /\ LET e == act[RootPath(root.k)].err IN
     IF IsErr(e) \/ root.k = Len(Prog.roots)
     THEN /\ root' = [root EXCEPT !.st = "done"]
          /\ OnRet(RetOf(e))
          /\ UNCHANGED <<act, sem, exec, cancelled, calls>>
     ELSE /\ root' = [root EXCEPT !.k = @ + 1]
          /\ act' = (RootPath(root.k + 1) :> NewAct(Prog.roots[root.k + 1].t, Prog.roots[root.k + 1].v,
                                                    RootPP(root.k + 1), <<"g0">>, FALSE)) @@ act
          /\ UNCHANGED <<sem, exec, cancelled, calls, mvars>>

RootJoin ==
  /\ root.st = "join"
  /\ \A k \in 1..Len(Prog.roots) : act[RootPath(k)].pc = "done"
  /\ root' = [root EXCEPT !.st = "done"]
  /\ OnRet(RetOf(root.gerr))
  /\ UNCHANGED <<act, sem, exec, cancelled, calls>>

\* ------------------------------------------------------------------ RunTask prologue
Enter(p) ==
  /\ act[p].pc = "enter"
  /\ LET a == act[p] t == a.task g == T(t).guard
         early(e) == /\ act' = [act EXCEPT ![p].pc = "ret", ![p].err = e]
                     /\ UNCHANGED calls
     IN
     IF g \in {"platform", "platreq"} THEN early(NoErr)
     ELSE IF g \in {"requires", "requires2"} THEN early(Err("code", 206))
     ELSE IF g = "enum" /\ a.v # "one" THEN early(Err("code", 207))
     ELSE /\ calls' = [calls EXCEPT ![t] = @ + 1]
          /\ IF calls[t] + 1 >= MaxCalls
             THEN act' = [act EXCEPT ![p].pc = "ret", ![p].err = Err("code", 204)]
             ELSE act' = [act EXCEPT ![p].pc = "acq"]
  /\ UNCHANGED <<sem, exec, cancelled, root, mvars>>

Acquire(p) ==
  /\ act[p].pc = "acq" /\ SlotFree /\ Take
  /\ act' = [act EXCEPT ![p].pc = "start"]
  /\ UNCHANGED <<exec, cancelled, calls, root, mvars>>

\* startExecution: register, or find the task registered and wait
Start(p) ==
  /\ act[p].pc = "start"
  /\ LET a == act[p] k == KeyOf(a.task, a.v) IN
     IF k = <<>> THEN /\ act' = [act EXCEPT ![p].pc = "deps"] /\ UNCHANGED <<exec, sem>>
     ELSE IF k \in DOMAIN exec
     THEN /\ act' = [act EXCEPT ![p].pc = "dwait", ![p].wait = k] /\ Give /\ UNCHANGED exec
     ELSE /\ exec' = (k :> [owner |-> p, fin |-> FALSE, err |-> NoErr]) @@ exec
          /\ act' = [act EXCEPT ![p].pc = "deps", ![p].owner = TRUE]
          /\ UNCHANGED sem
  /\ UNCHANGED <<cancelled, calls, root, mvars>>

\* design: the waiter continues when the one real execution has returned, with its outcome
DedupWake(p) ==
  /\ "DedupWaitCtx" \notin KF
  /\ act[p].pc = "dwait" /\ exec[act[p].wait].fin
  /\ SlotFree /\ Take
  \* a task named on the command line that shared the execution started by an indirect caller reports the
  \* bare exit-status error of that execution like a failure of its own (RunTask, after startExecution)
  /\ LET e == exec[act[p].wait].err
         e2 == IF ~act[p].ind /\ e.k = "exit" /\ ~e.w THEN Wrap(e) ELSE e
     IN act' = [act EXCEPT ![p].pc = "fin", ![p].err = e2]
  /\ UNCHANGED <<exec, cancelled, calls, root, mvars>>

\* pinned code: <-otherExecutionCtx.Done(); return nil
KF_DedupWakeOnCtx(p) ==
  /\ "DedupWaitCtx" \in KF
  /\ act[p].pc = "dwait" /\ IsCancelled(<<"x", exec[act[p].wait].owner>>)
  /\ SlotFree /\ Take
  /\ act' = [act EXCEPT ![p].pc = "fin"]
  /\ UNCHANGED <<exec, cancelled, calls, root, mvars>>

\* ------------------------------------------------------------------ runDeps
DepsFork(p) ==
  /\ act[p].pc = "deps" /\ Give
  /\ LET a == act[p] ds == ExpDeps(a.task)
         new == [q \in {Append(p, ds[j].seg) : j \in 1..Len(ds)} |->
                   LET d == ds[CHOOSE j \in 1..Len(ds) : Append(p, ds[j].seg) = q]
                       vv == ResolveV(d.v, a.v)
                   IN NewAct(d.t, vv, ChildPP(a.pp, d, vv), <<"g", p>>, TRUE)]
     IN act' = new @@ [act EXCEPT ![p].pc = "depsjoin"]
  /\ UNCHANGED <<exec, cancelled, calls, root, mvars>>

DepChildren(p) == {q \in Paths : Len(q) = Len(p) + 1 /\ Front(q) = p /\ Last(q)[1] = "d"}

DepsJoin(p) ==
  /\ act[p].pc = "depsjoin"
  /\ \A q \in DepChildren(p) : act[q].pc = "done"
  /\ SlotFree /\ Take
  /\ LET a == act[p] IN
     IF IsErr(a.gerr)
     THEN act' = [act EXCEPT ![p].pc = "fin",
                             ![p].err = IF ~a.ind /\ "DepErrUnwrapped" \notin KF /\ a.gerr.k \in {"exit", "cancel"}
                                        THEN Wrap(a.gerr) ELSE a.gerr]
     ELSE act' = [act EXCEPT ![p].pc = "gate"]
  /\ UNCHANGED <<exec, cancelled, calls, root, mvars>>

\* ------------------------------------------------------------------ ctx check, preconditions, status, prompt
Gate(p) ==
  /\ act[p].pc = "gate"
  /\ LET a == act[p] g == T(a.task).guard
         skipFP == Prog.forceall \/ (~a.ind /\ Prog.force)
         fin(e) == act' = [act EXCEPT ![p].pc = "fin", ![p].err = e]
         n == Adv(Es(p), 1, <<>>)
     IN
     IF ~skipFP /\ IsCancelled(ExecCtx(p)) THEN fin(Err("cancel", 0))
     ELSE IF g = "precond" /\ (~skipFP \/ "ForceSkipsPrecond" \notin KF) THEN fin(Err("generic", 1))
     ELSE IF g = "uptodate" /\ ~skipFP THEN fin(NoErr)
     ELSE IF g = "prompt" /\ ~Prog.yes THEN fin(Err("code", 205))
     ELSE act' = [act EXCEPT ![p].pc = "cmd", ![p].i = n.i, ![p].ds = n.ds]
  /\ UNCHANGED <<sem, exec, cancelled, calls, root, mvars>>

\* ------------------------------------------------------------------ the cmds loop
CmdsDone(p) ==
  /\ act[p].pc = "cmd" /\ act[p].i > Len(Es(p))
  /\ act' = [act EXCEPT ![p].pc = "defers"]
  /\ UNCHANGED <<sem, exec, cancelled, calls, root, mvars>>

\* a shell command is not started under a cancelled context
CmdSkipCancelled(p) ==
  /\ act[p].pc = "cmd" /\ act[p].i <= Len(Es(p)) /\ Es(p)[act[p].i].k = "sh"
  /\ IsCancelled(ExecCtx(p))
  /\ act' = [act EXCEPT ![p] = Fail(act[p], Err("cancel", 0))]
  /\ UNCHANGED <<sem, exec, cancelled, calls, root, mvars>>

CmdBegin(p) ==
  /\ act[p].pc = "cmd" /\ act[p].i <= Len(Es(p)) /\ Es(p)[act[p].i].k = "sh"
  /\ ~IsCancelled(ExecCtx(p))
  /\ act' = [act EXCEPT ![p].pc = "run"]
  /\ OnBegin(ProbeOf(act[p], Es(p)[act[p].i], ""))
  /\ UNCHANGED <<sem, exec, cancelled, calls, root>>

\* a command that is still running when its context is cancelled ends with the cancellation
CmdEnd(p) ==
  /\ act[p].pc = "run"
  /\ LET a == act[p] e == Es(p)[a.i] IN
     /\ OnEnd(ProbeOf(a, e, ""))
     /\ IF IsCancelled(ExecCtx(p)) THEN act' = [act EXCEPT ![p] = Fail(a, Err("cancel", 0))]
        ELSE IF e.x = 0 \/ e.ign THEN act' = [act EXCEPT ![p] = NextEntry(a)]
        ELSE act' = [act EXCEPT ![p] = Fail(a, Err("exit", e.x))]
  /\ UNCHANGED <<sem, exec, cancelled, calls, root>>

CallFork(p) ==
  /\ act[p].pc = "cmd" /\ act[p].i <= Len(Es(p)) /\ Es(p)[act[p].i].k = "call"
  /\ Give
  /\ LET a == act[p] cs == Es(p)[a.i].cs vv == ResolveV(cs.v, a.v) IN
     act' = (Append(p, cs.seg) :> NewAct(cs.t, vv, ChildPP(a.pp, cs, vv), ExecCtx(p), TRUE))
            @@ [act EXCEPT ![p].pc = "calljoin"]
  /\ UNCHANGED <<exec, cancelled, calls, root, mvars>>

CallJoin(p) ==
  /\ act[p].pc = "calljoin"
  /\ LET a == act[p] q == Append(p, Es(p)[a.i].cs.seg) IN
     /\ act[q].pc = "done" /\ SlotFree /\ Take
     /\ IF IsErr(act[q].err) THEN act' = [act EXCEPT ![p] = Fail(a, act[q].err)]
        ELSE act' = [act EXCEPT ![p] = NextEntry(a)]
  /\ UNCHANGED <<exec, cancelled, calls, root, mvars>>

\* ------------------------------------------------------------------ deferred entries (Go defers, LIFO)
DefersDone(p) ==
  /\ act[p].pc = "defers" /\ act[p].ds = <<>>
  /\ act' = [act EXCEPT ![p].pc = "fin"]
  /\ UNCHANGED <<sem, exec, cancelled, calls, root, mvars>>

DeferBegin(p) ==
  /\ act[p].pc = "defers" /\ act[p].ds # <<>> /\ Es(p)[Head(act[p].ds)].k = "dsh"
  /\ LET a == act[p] j == Head(a.ds) IN
     /\ act' = [act EXCEPT ![p].pc = "drun", ![p].i = j, ![p].ds = Tail(a.ds)]
     /\ OnBegin(ProbeOf(a, Es(p)[j], IF a.xc > 0 THEN ToString(a.xc) ELSE ""))
  /\ UNCHANGED <<sem, exec, cancelled, calls, root>>

DeferEnd(p) ==
  /\ act[p].pc = "drun"
  /\ LET a == act[p] IN
     /\ OnEnd(ProbeOf(a, Es(p)[a.i], IF a.xc > 0 THEN ToString(a.xc) ELSE ""))
     /\ act' = [act EXCEPT ![p].pc = "defers"]
  /\ UNCHANGED <<sem, exec, cancelled, calls, root>>

DeferCallFork(p) ==
  /\ act[p].pc = "defers" /\ act[p].ds # <<>> /\ Es(p)[Head(act[p].ds)].k = "dcall"
  /\ Give
  /\ LET a == act[p] j == Head(a.ds) cs == Es(p)[j].cs
         raw == "DeferCallVarsRaw" \in KF
         vv == IF raw THEN (IF cs.v = "$" THEN "" ELSE cs.v) ELSE ResolveV(cs.v, a.v)
         pp == IF T(cs.t).run = "when_changed" THEN << <<"w", cs.t, vv>> >>
               ELSE IF raw THEN <<cs.seg>> ELSE Append(a.pp, cs.seg)
     IN act' = (Append(p, cs.seg) :> NewAct(cs.t, vv, pp, <<"bg">>, TRUE))
               @@ [act EXCEPT ![p].pc = "dcalljoin", ![p].i = j, ![p].ds = Tail(a.ds)]
  /\ UNCHANGED <<exec, cancelled, calls, root, mvars>>

DeferCallJoin(p) ==
  /\ act[p].pc = "dcalljoin"
  /\ act[Append(p, Es(p)[act[p].i].cs.seg)].pc = "done" /\ SlotFree /\ Take
  /\ act' = [act EXCEPT ![p].pc = "defers"]
  /\ UNCHANGED <<exec, cancelled, calls, root, mvars>>

\* ------------------------------------------------------------------ epilogue
\* the closure returned: cancel() of a registered execution wakes its waiters; slot released
Finish(p) ==
  /\ act[p].pc = "fin" /\ Give
  /\ LET a == act[p] k == KeyOf(a.task, a.v) IN
     IF a.owner
     THEN /\ exec' = [exec EXCEPT ![k].fin = TRUE, ![k].err = a.err]
          /\ cancelled' = cancelled \cup {<<"x", p>>}
     ELSE UNCHANGED <<exec, cancelled>>
  /\ act' = [act EXCEPT ![p].pc = "ret"]
  /\ UNCHANGED <<calls, root, mvars>>

\* RunTask returned to its caller: errgroup bookkeeping (first error wins and cancels the group)
Return(p) ==
  /\ act[p].pc = "ret"
  /\ LET a == act[p] kind == Last(p)[1] IN
     CASE kind = "d" ->
            LET q == Front(p) IN
            IF IsErr(a.err) /\ ~IsErr(act[q].gerr)
            THEN /\ act' = [act EXCEPT ![p].pc = "done", ![q].gerr = a.err]
                 /\ cancelled' = cancelled \cup {<<"g", q>>}
                 /\ UNCHANGED root
            ELSE /\ act' = [act EXCEPT ![p].pc = "done"] /\ UNCHANGED <<cancelled, root>>
       [] kind = "r" /\ Prog.par ->
            IF IsErr(a.err) /\ ~IsErr(root.gerr)
            THEN /\ act' = [act EXCEPT ![p].pc = "done"]
                 /\ root' = [root EXCEPT !.gerr = a.err]
                 /\ cancelled' = cancelled \cup {<<"g0">>}
            ELSE /\ act' = [act EXCEPT ![p].pc = "done"] /\ UNCHANGED <<cancelled, root>>
       [] OTHER -> /\ act' = [act EXCEPT ![p].pc = "done"] /\ UNCHANGED <<cancelled, root>>
  /\ UNCHANGED <<sem, exec, calls, mvars>>

\* ------------------------------------------------------------------ next-state relation
Internal(p) ==
  \/ Enter(p) \/ Acquire(p) \/ Start(p) \/ DedupWake(p) \/ KF_DedupWakeOnCtx(p)
  \/ DepsFork(p) \/ DepsJoin(p) \/ Gate(p)
  \/ CmdsDone(p) \/ CmdSkipCancelled(p) \/ CallFork(p) \/ CallJoin(p)
  \/ DefersDone(p) \/ DeferCallFork(p) \/ DeferCallJoin(p)
  \/ Finish(p) \/ Return(p)

Observable(p) == CmdBegin(p) \/ CmdEnd(p) \/ DeferBegin(p) \/ DeferEnd(p)

Done == root.st = "done"
Terminated == Done /\ UNCHANGED vars

Step == \/ RootStart \/ RootNext \/ RootJoin
        \/ \E p \in Paths : Internal(p) \/ Observable(p)

Next == (Step /\ UNCHANGED prog) \/ Terminated

Spec == Init /\ [][Next]_vars
FairSpec == Spec /\ WF_vars(Step /\ UNCHANGED prog)

\* ------------------------------------------------------------------ model invariants
Inv_Sem == Lim > 0 => sem <= Lim
Inv_RunningHoldSlots == Lim > 0 => Cardinality(Running) <= sem
Termination == <>Done
=============================================================================
