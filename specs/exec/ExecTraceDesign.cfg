SPECIFICATION TSpec
CONSTANTS
  Programs <- GenPrograms
  KF <- KFNone
  MaxCalls = 1000
CONSTRAINT HW
INVARIANT NotAccepted
POSTCONDITION ReportHW
CHECK_DEADLOCK FALSE
