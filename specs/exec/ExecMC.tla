------------------------------ MODULE ExecMC ------------------------------
\* Model-checking wrapper: programs come from the generated ExecData module.
EXTENDS Exec, ExecData
KFNone == {}
KFAll == {"DedupWaitCtx", "DepErrUnwrapped", "ForceSkipsPrecond", "VarsBlindHash", "DeferCallVarsRaw"}
=============================================================================
