----------------------------- MODULE ExecTrace -----------------------------
(***************************************************************************)
(* Trace validation: is every trace recorded from the real Executor a      *)
(* behaviour of Exec?  A recorded event is matched by the observable       *)
(* action with the logged fields conjoined; everything the probes cannot   *)
(* see (slot traffic, registration, errgroup bookkeeping ...) is inferred  *)
(* by TLC as silent steps.  Traces are concatenated; NextTrace re-         *)
(* initialises the model for the next program.  Acceptance is reaching     *)
(* the end of the last trace (reported through the invariant NotAccepted); *)
(* the furthest position reached is kept in TLC register 1 so that a       *)
(* rejection can be located.                                               *)
(***************************************************************************)
EXTENDS Exec, ExecData
VARIABLES tr, l, evs

tvars == <<vars, tr, l, evs>>

KFNone == {}
KFAll == {"DedupWaitCtx", "DepErrUnwrapped", "ForceSkipsPrecond", "VarsBlindHash", "DeferCallVarsRaw"}

Evs == evs
PR(ev) == [p |-> ev.p, t |-> ev.t, i |-> ev.i, item |-> ev.item, v |-> ev.v, xc |-> ev.xc]

TInit ==
  /\ tr = 1 /\ l = 1 /\ prog = Programs[Traces[1].prog] /\ evs = Traces[1].evs
  /\ act = <<>> /\ sem = 0 /\ exec = <<>> /\ cancelled = {}
  /\ calls = [t \in DOMAIN Programs[Traces[1].prog].tasks |-> 0]
  /\ root = [st |-> "start", k |-> 0, gerr |-> NoErr]
  /\ MonInit

Silent ==
  /\ \/ \E p \in Paths : Internal(p)
     \/ (RootStart \/ RootNext) /\ ret' = ret
  /\ UNCHANGED <<prog, tr, l, evs>>

Obs ==
  /\ l <= Len(Evs)
  /\ LET ev == Evs[l] IN
       CASE ev.e = "B" -> /\ \E p \in Paths : act[p].pp = ev.p /\ (CmdBegin(p) \/ DeferBegin(p))
                          /\ begun' = begun \cup {PR(ev)}
         [] ev.e = "E" -> /\ \E p \in Paths : act[p].pp = ev.p /\ (CmdEnd(p) \/ DeferEnd(p))
                          /\ ended' = ended \cup {PR(ev)}
         [] ev.e = "R" -> /\ RootStart \/ RootNext \/ RootJoin
                          /\ ret' # NoRet /\ ret'.code = ev.code /\ ret'.xcode = ev.xcode
         [] ev.e = "Q" -> /\ KeysOf(Running) = ev.set
                          /\ UNCHANGED <<svars, mvars>>
         [] OTHER      -> UNCHANGED <<svars, mvars>>
  /\ l' = l + 1
  /\ UNCHANGED <<prog, tr, evs>>

NextTrace ==
  /\ l = Len(Evs) + 1 /\ tr < Len(Traces)
  /\ (Done \/ Evs[Len(Evs)].e = "DL")
  /\ tr' = tr + 1 /\ l' = 1 /\ prog' = Programs[Traces[tr + 1].prog] /\ evs' = Traces[tr + 1].evs
  /\ act' = <<>> /\ sem' = 0 /\ exec' = <<>> /\ cancelled' = {}
  /\ calls' = [t \in DOMAIN Programs[Traces[tr + 1].prog].tasks |-> 0]
  /\ root' = [st |-> "start", k |-> 0, gerr |-> NoErr]
  /\ begun' = {} /\ ended' = {} /\ dead' = <<>> /\ ret' = NoRet /\ bad' = {}

TNext == Obs \/ Silent \/ NextTrace
TSpec == TInit /\ [][TNext]_tvars

\* progress register: furthest (trace, position) explained so far
Pos == tr * 100000 + l
HW == TLCSet(1, IF Pos > TLCGet(1) THEN Pos ELSE TLCGet(1))
ASSUME TLCSet(1, 0)

NotAccepted == ~(tr = Len(Traces) /\ l = Len(Evs) + 1 /\ (Done \/ Evs[Len(Evs)].e = "DL"))
ReportHW == PrintT(<<"HW", TLCGet(1)>>)
=============================================================================
