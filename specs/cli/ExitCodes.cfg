SPECIFICATION Spec
CONSTANT Deviations = {"no-taskfile-generic", "missing-include-generic"}
CONSTRAINT Emit
CHECK_DEADLOCK FALSE
