-------------------------------- MODULE Args --------------------------------
(***************************************************************************)
(* C19: what reaches a command is what was given on the command line.      *)
(*   Forward(argv)   arguments after "--" arrive through {{.CLI_ARGS}} as  *)
(*                   the same sequence of the same strings;                *)
(*   Quote(v)        {{shellQuote .X}} / {{q .X}} delivers the value of X  *)
(*                   as exactly one identical argument;                    *)
(*   SplitVar(s)     NAME=value is split at the FIRST "=";                 *)
(*   InitTarget      where --init [path] writes, and that an existing      *)
(*                   file is never overwritten (error 101).                *)
(* Strings are sequences of indices into Alpha (the driver owns the real   *)
(* characters: quotes, blanks, $, \, *, braces, =, #, newline, ~ ; & | < > *)
(* ( ) `).  Cases specification: one configuration per initial state, the  *)
(* expected result is a state variable, one line is printed per state.     *)
(***************************************************************************)
EXTENDS Naturals, Sequences, FiniteSets, TLC

CONSTANTS NAlpha,     \* size of the alphabet; index EqIdx is "="
          EqIdx,
          MaxLen,     \* maximal length of one argument
          MaxArgs,    \* maximal number of arguments
          PairLen,    \* maximal length of each argument when MaxArgs > 1
          PairFirst,  \* first characters of the first argument of a pair (sharding of the enumeration)
          PairsOnly   \* TRUE: only the two-argument configurations (the other shards of a sharded enumeration)

VARIABLES cfg, exp

Chars == 1..NAlpha
RECURSIVE Strs(_)
Strs(n) == IF n = 0 THEN {<<>>} ELSE LET S == Strs(n - 1) IN S \cup {Append(s, c) : s \in S, c \in Chars}

Forward(argv) == argv
Quote(v) == <<v>>
FirstEq(s) == CHOOSE k \in 1..Len(s) : s[k] = EqIdx /\ \A j \in 1..(k - 1) : s[j] # EqIdx
HasEq(s) == \E k \in 1..Len(s) : s[k] = EqIdx
SplitVar(s) == [name |-> SubSeq(s, 1, FirstEq(s) - 1), value |-> SubSeq(s, FirstEq(s) + 1, Len(s))]

\* --init decision table.  arg: none | dir (existing directory) | file (a file name, .yml) |
\* ext (extension only, ".yaml") ; exists: the target file is already there
InitTarget(arg, exists) ==
  LET path == CASE arg = "none" -> "Taskfile.yml"
                [] arg = "dir"  -> "sub/Taskfile.yml"
                [] arg = "file" -> "custom.yml"
                [] arg = "ext"  -> "Taskfile.yaml"
  IN [path |-> path, code |-> IF exists THEN 101 ELSE 0, overwritten |-> FALSE]

Pairs == IF MaxArgs >= 2
         \* an argument may be the empty string (it is still an argument)
         THEN {[k |-> "argv", argv |-> <<s, t>>] : s \in {u \in Strs(PairLen) : IF u = <<>> THEN 1 \in PairFirst ELSE u[1] \in PairFirst}, t \in Strs(PairLen)}
         ELSE {}
Cfgs == IF PairsOnly THEN Pairs ELSE
        {[k |-> "argv", argv |-> <<s>>] : s \in Strs(MaxLen)}
        \cup Pairs
        \cup {[k |-> "quote", v |-> s] : s \in Strs(MaxLen) \ {<<>>}}
        \cup {[k |-> "split", s |-> <<1, EqIdx>> \o v] : v \in Strs(MaxLen)}
        \cup {[k |-> "init", arg |-> a, exists |-> e] : a \in {"none", "dir", "file", "ext"}, e \in BOOLEAN}

Expected(c) == CASE c.k = "argv"  -> [argv |-> Forward(c.argv)]
                 [] c.k = "quote" -> [argv |-> Quote(c.v)]
                 [] c.k = "split" -> SplitVar(c.s)
                 [] c.k = "init"  -> InitTarget(c.arg, c.exists)

Init == cfg \in Cfgs /\ exp = Expected(cfg)
Next == FALSE /\ UNCHANGED <<cfg, exp>>
Spec == Init /\ [][Next]_<<cfg, exp>>

RECURSIVE S2(_)
S2(s) == IF s = <<>> THEN "" ELSE ToString(Head(s)) \o (IF Len(s) > 1 THEN "." ELSE "") \o S2(Tail(s))
RECURSIVE A2(_)
S2E(s) == IF s = <<>> THEN "e" ELSE S2(s)      \* "e": the empty argument
A2(a) == IF a = <<>> THEN "" ELSE S2E(Head(a)) \o (IF Len(a) > 1 THEN "/" ELSE "") \o A2(Tail(a))
Line == CASE cfg.k = "argv"  -> "CASE|argv|" \o A2(cfg.argv) \o "|" \o A2(exp.argv)
          [] cfg.k = "quote" -> "CASE|quote|" \o S2(cfg.v) \o "|" \o A2(exp.argv)
          [] cfg.k = "split" -> "CASE|split|" \o S2(cfg.s) \o "|" \o S2(exp.name) \o "/" \o S2(exp.value)
          [] cfg.k = "init"  -> "CASE|init|" \o cfg.arg \o "/" \o ToString(cfg.exists) \o "|" \o exp.path \o "/" \o ToString(exp.code)
Emit == PrintT(Line)
=============================================================================
