----------------------------- MODULE ExitCodes -----------------------------
(***************************************************************************)
(* Beyond the listed properties: the exit status of the CLI by kind of     *)
(* outcome (errors/errors.go, cmd/task/task.go main; documented under      *)
(* "Exit Codes").  1xx: the Taskfile could not be used; 2xx: a task could  *)
(* not be run.  --exit-code (-x) replaces 201 by the failing command's own *)
(* status and changes nothing else.  The remote codes (103-106, 108) are   *)
(* in Remote.tla, 101 (--init) in Args.tla.                                *)
(* Cases specification: one scenario per initial state.                    *)
(***************************************************************************)
EXTENDS Naturals, Sequences, TLC

\* Deviations of the pinned code from the documented table, kept as named switches so that the specification stays
\* faithful to what the code does (recorded in DESIGN.md as growth findings):
\*   "no-taskfile-generic"      no Taskfile in the directory chain: the bare "file does not exist" error (status 1),
\*                              not TaskfileNotFound (100)
\*   "missing-include-generic"  a non-optional include that does not exist: the bare stat error (1), not 100
CONSTANT Deviations

VARIABLES cfg, exp

Kinds == {"ok", "no-taskfile", "bad-yaml", "bad-shape", "no-version", "version-too-high", "missing-include",
          "include-cycle", "task-not-found", "cmd-fails-7", "dep-cmd-fails-7", "called-cmd-fails-7", "ignored-cmd-fails-7",
          "precondition", "internal", "ambiguous-alias", "task-cycle", "prompt-declined", "required-var",
          "enum-var", "status-stale", "status-fresh", "unknown-flag", "dry-cmd-fails-7", "dep-cycle"}

Cfgs == [kind : Kinds, x : BOOLEAN]      \* x: --exit-code given

Code(c) ==
  CASE c.kind \in {"ok", "ignored-cmd-fails-7", "status-fresh", "dry-cmd-fails-7"} -> 0
    [] c.kind = "no-taskfile"        -> IF "no-taskfile-generic" \in Deviations THEN 1 ELSE 100
    [] c.kind = "bad-yaml"           -> 109      \* not YAML at all: "invalid"
    [] c.kind = "bad-shape"          -> 102      \* YAML of the wrong shape: "decode"
    [] c.kind \in {"no-version", "version-too-high"} -> 107
    [] c.kind = "missing-include"    -> IF "missing-include-generic" \in Deviations THEN 1 ELSE 100
    [] c.kind = "include-cycle"      -> 110
    [] c.kind = "task-not-found"     -> 200
    [] c.kind \in {"cmd-fails-7", "dep-cmd-fails-7", "called-cmd-fails-7"} -> IF c.x THEN 7 ELSE 201
    [] c.kind = "precondition"       -> 1        \* "precondition not met" has no code of its own
    [] c.kind = "internal"           -> 202
    [] c.kind = "ambiguous-alias"    -> 203
    [] c.kind = "task-cycle"         -> 201      \* a cycle through task: commands: "called too many times" wrapped as a run error
    [] c.kind = "dep-cycle"          -> 204      \* a cycle through deps: the error itself
    [] c.kind = "prompt-declined"    -> 205
    [] c.kind = "required-var"       -> 206
    [] c.kind = "enum-var"           -> 207
    [] c.kind = "status-stale"       -> 1        \* --status on a task that is not up to date
    [] c.kind = "unknown-flag"       -> 2

Init == cfg \in Cfgs /\ exp = Code(cfg)
Next == FALSE /\ UNCHANGED <<cfg, exp>>
Spec == Init /\ [][Next]_<<cfg, exp>>
Emit == PrintT("CASE|" \o ToString([cfg |-> cfg, exp |-> exp]))
=============================================================================
