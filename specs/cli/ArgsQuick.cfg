SPECIFICATION Spec
CONSTANTS
  NAlpha = 21
  EqIdx = 10
  MaxLen = 2
  MaxArgs = 2
  PairLen = 1
CONSTRAINT Emit
CHECK_DEADLOCK FALSE
