SPECIFICATION Spec
CONSTANT MaxDev = 1
CONSTRAINT Emit
CHECK_DEADLOCK FALSE
