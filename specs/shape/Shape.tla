------------------------------- MODULE Shape -------------------------------
(***************************************************************************)
(* C16: whatever is put at a position of the Taskfile schema, Task ends    *)
(* with success or a diagnosed error - never a crash, never a hang.        *)
(* The universe: a valid baseline document plus up to MaxDev deviations;   *)
(* a deviation puts one of the YAML node kinds at one schema position.     *)
(* Document-level attributes: line terminator, trailing newline, and which *)
(* requests are made afterwards.  The only thing specified is the CLASS of *)
(* the outcome: Outcome(doc) \in {"ok", "error"} - "crash" and "hang" are  *)
(* not in the set, for any document.                                       *)
(* Cases specification: one document per initial state.                    *)
(***************************************************************************)
EXTENDS Naturals, Sequences, FiniteSets, TLC

CONSTANT MaxDev

VARIABLES doc, exp

Positions == {
  "root.version", "root.vars", "root.env", "root.includes", "root.tasks", "root.output", "root.dotenv", "root.set", "root.run", "root.silent", "root.method", "root.interval",
  "var.value", "var.sh", "var.ref", "var.map",
  "include.value", "include.taskfile", "include.vars", "include.aliases", "include.excludes", "include.dir",
  "task.value", "task.cmds", "task.deps", "task.vars", "task.env", "task.sources", "task.generates", "task.status", "task.preconditions",
  "task.requires", "task.platforms", "task.aliases", "task.prompt", "task.dir", "task.dotenv", "task.run", "task.label", "task.desc",
  "cmd.value", "cmd.cmd", "cmd.task", "cmd.defer", "cmd.for", "cmd.vars", "cmd.platforms", "cmd.set",
  "for.list", "for.var", "for.matrix", "for.matrixrow", "for.varmatrix", "dep.value", "dep.task", "dep.vars", "dep.for",
  "requires.vars", "requires.var", "requires.enum", "precondition.value", "precondition.sh", "source.value", "source.exclude", "output.group" }

Kinds == {"null", "empty-string", "scalar", "int", "bool", "empty-seq", "seq-scalar", "seq-null", "seq-map", "empty-map", "map-unknown", "map-null-value", "nested-seq", "tilde", "template",
          \* strings that are special to the shell-style expansion applied to paths, globs and commands:
          \* a comment, blanks only, an unset variable, an unterminated bracket / brace / quote, an unknown ~user
          "hash-string", "blank-string", "unset-var-string", "bad-glob-string", "tilde-user-string", "multiline-string"}

Terminators == {"LF", "CRLF", "CR"}

Deviation == [pos : Positions, kind : Kinds]
\* sets of at most MaxDev deviations at distinct positions (MaxDev \in {1, 2}); for MaxDev = 2 the
\* pairs are restricted to PairKinds to keep the enumeration finite in practice - the driver samples
\* the remaining pairs from the same Positions / Kinds (printed in the META line)
PairKinds == {"null", "empty-map", "seq-null", "scalar"}
DevSets == {{}} \cup {{d} : d \in Deviation}
           \cup (IF MaxDev >= 2 THEN {{d1, d2} : d1 \in {d \in Deviation : d.kind \in PairKinds}, d2 \in {d \in Deviation : d.kind \in PairKinds}} ELSE {})
Docs == {[devs |-> ds, term |-> t, trailing |-> tr] :
           ds \in {d \in DevSets : \A x, y \in d : x.pos = y.pos => x = y},
           t \in Terminators, tr \in BOOLEAN}

Outcome(d) == {"ok", "error"}      \* the property: a diagnosed error or success; nothing else

Init == doc \in Docs /\ exp = Outcome(doc)
Next == FALSE /\ UNCHANGED <<doc, exp>>
Spec == Init /\ [][Next]_<<doc, exp>>
Emit == PrintT("CASE|" \o ToString(doc))
ASSUME PrintT("META|" \o ToString([positions |-> Positions, kinds |-> Kinds]))
=============================================================================
