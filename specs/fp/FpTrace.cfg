SPECIFICATION TSpec
CONSTANTS
  KF <- KFOpen
  MaxClock = 1000
CHECK_DEADLOCK FALSE
