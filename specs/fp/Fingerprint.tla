---------------------------- MODULE Fingerprint ----------------------------
(***************************************************************************)
(* Model of Task's up-to-date machinery (internal/fingerprint, status.go,  *)
(* the write / roll-back protocol in RunTask, help.go ToEditorOutput):     *)
(* the state kept under .task and what an invocation in each mode does.    *)
(*                                                                         *)
(* KF switches (behaviour of the pinned implementation that deviates from  *)
(* the intended design; design = switch absent):                           *)
(*  "WriteBeforeRun"   the checksum / marker is written by the up-to-date  *)
(*                     check itself, before the commands run, and only     *)
(*                     removed by the error path: a killed run keeps it    *)
(*  "PromptKeeps"      ... and the prompt-declined path does not remove it *)
(*  "ListJsonWrites"   --list-all --json runs the check without dry mode   *)
(*  "TsKeepsOnError"   timestamp: OnError is a no-op                       *)
(*  "TsMissingGen"     timestamp: a generates pattern matching nothing is  *)
(*                     ignored                                             *)
(*  "TsNewerOnly"      timestamp: only "some source is newer than the      *)
(*                     marker" is tested (removals, old files unnoticed)   *)
(*  "NameCollision"    the state file name is the task name with every     *)
(*                     non-alphanumeric character replaced by '-'          *)
(***************************************************************************)
EXTENDS FpProps

CONSTANTS KF, MaxClock
VARIABLES ck,    \* store key -> fingerprint record or <<"none">>
          mk     \* store key -> [present, m] timestamp marker

svars == <<ck, mk>>
None == [has |-> FALSE, fp |-> {}]
Some(fp) == [has |-> TRUE, fp |-> fp]

Key(task) == IF cfg.collide /\ "NameCollision" \in KF THEN "t" ELSE task

StoreInit == ck = [k \in Tasks |-> None] /\ mk = [k \in Tasks |-> [present |-> FALSE, m |-> 0]]

Max(S) == CHOOSE x \in S : \A y \in S : y <= x

\* ---- the up-to-date check of one task; write = not dry.  Returns [up, ck, mk] (new store)
Check(task, write) ==
  LET k == Key(task) IN
  IF cfg.method = "checksum"
  THEN LET new == Some(FP) old == ck[k]
           wr  == write /\ "WriteBeforeRun" \in KF /\ old # new
       IN [up |-> old = new /\ GenOK,
           ck |-> IF wr THEN [ck EXCEPT ![k] = new] ELSE ck,
           mk |-> mk]
  ELSE IF "TsNewerOnly" \in KF
  THEN LET m == mk[k]
           gens == (IF cfg.gen /\ gen.present THEN {gen.m} ELSE {}) \cup (IF m.present THEN {m.m} ELSE {})
           missing == cfg.gen /\ ~gen.present /\ "TsMissingGen" \notin KF
           newer == gens # {} /\ \E f \in Matched : files[f].m > Max(gens)
           mk1 == IF write THEN [mk EXCEPT ![k] = [present |-> TRUE, m |-> clock]] ELSE mk
       IN [up |-> gens # {} /\ ~newer /\ ~missing, ck |-> ck, mk |-> mk1]
  ELSE \* design: the marker remembers the modification times it was made for
       [up |-> ck[k] = Some(FP) /\ GenOK, ck |-> ck, mk |-> mk]

UpToDate(task, write) == LET c == Check(task, write) IN [c EXCEPT !.up = c.up /\ StatOK]

\* the store after an attempt: success keeps / records the fingerprint, failure removes it
AfterSuccess(task, st) ==
  LET k == Key(task) IN
  IF "WriteBeforeRun" \in KF THEN st
  ELSE [st EXCEPT !.ck = [st.ck EXCEPT ![k] = Some(FP)]]

AfterFailure(task, st) ==
  LET k == Key(task) IN
  IF cfg.method = "checksum" \/ "TsNewerOnly" \notin KF THEN [st EXCEPT !.ck = [st.ck EXCEPT ![k] = None]]
  ELSE IF "TsKeepsOnError" \in KF THEN st
  ELSE [st EXCEPT !.mk = [st.mk EXCEPT ![k] = [present |-> FALSE, m |-> 0]]]

\* design: starting an attempt invalidates what is stored, so that a killed run cannot leave it
Invalidate(task, st) ==
  IF "WriteBeforeRun" \in KF THEN st
  ELSE [st EXCEPT !.ck = [st.ck EXCEPT ![Key(task)] = None]]

Body(mode) ==
  CASE mode \in {"fail1", "failpre", "depfail1", "cancelsib"} -> [ran |-> <<1>>, exit |-> 201, how |-> "fail"]
       \* failpre: a nested task call fails on a precondition; depfail1: the task is reached as a dependency of another task; cancelsib: the task runs as a dependency next
       \* to a sibling that fails while the task's second command is still running (cancellation)
    [] mode \in {"fail2"} -> [ran |-> <<1, 2>>, exit |-> 201, how |-> "fail"]
    [] mode \in {"kill1"} -> [ran |-> <<1>>, exit |-> 137, how |-> "kill"]
    [] mode \in {"kill2"} -> [ran |-> <<1, 2>>, exit |-> 137, how |-> "kill"]
    [] OTHER              -> [ran |-> <<1, 2>>, exit |-> 0, how |-> "ok"]

\* Predict(mode) = [ran, exit, ck, mk]: what the invocation does
Predict(mode) ==
  LET task == IF mode = "other" THEN "u" ELSE "t"
      keep == [ck |-> ck, mk |-> mk]
      out(r, x, st) == [ran |-> r, exit |-> x, ck |-> st.ck, mk |-> st.mk]
  IN
  CASE mode \in {"list", "summary", "drydir", "dryforce"} -> out(<<>>, 0, keep)   \* dryforce: --dry --force prints, runs and records nothing
    [] mode = "dry"      -> out(<<>>, 0, keep)
    [] mode = "dryfailpre" -> out(<<>>, IF UpToDate("t", FALSE).up THEN 0 ELSE 201, keep)   \* --dry while the precondition of a called task fails
    [] mode = "status"   -> out(<<>>, IF UpToDate("t", FALSE).up THEN 0 ELSE 1, keep)
    [] mode = "listjson" ->
         IF "ListJsonWrites" \in KF
         THEN LET c1 == Check("t", TRUE)
                  c2 == [ck |-> c1.ck, mk |-> c1.mk]
              IN \* both tasks are checked, each writing its own state
                 out(<<>>, 0, [ck |-> [k \in Tasks |-> IF cfg.method = "checksum" /\ "WriteBeforeRun" \in KF THEN Some(FP) ELSE ck[k]],
                               mk |-> [k \in Tasks |-> IF cfg.method = "timestamp" /\ "TsNewerOnly" \in KF
                                                        THEN [present |-> TRUE, m |-> clock] ELSE mk[k]]])
         ELSE out(<<>>, 0, keep)
    [] mode = "force" ->   \* forced: the verdict of the up-to-date check is ignored, what it records is not
         LET c == Check(task, TRUE) st0 == [ck |-> c.ck, mk |-> c.mk]
             b == Body(mode) st == Invalidate(task, st0) IN
         out(b.ran, b.exit, AfterSuccess(task, st))
    [] mode = "forcefail1" ->   \* a forced run whose first checked command fails: whatever was recorded is forgotten
         LET c == Check(task, TRUE) st0 == [ck |-> c.ck, mk |-> c.mk]
             st == Invalidate(task, st0) IN
         out(<<1>>, 201, AfterFailure(task, st))
    [] mode = "retryfail1" ->   \* the task is attempted TWICE in one invocation (called twice by a task that ignores errors)
         \* and its first command fails both times: each attempt checks, records and forgets on its own
         LET c == UpToDate(task, TRUE) st0 == [ck |-> c.ck, mk |-> c.mk] IN
         IF c.up THEN out(<<>>, 0, st0)
         ELSE out(<<1, 1>>, 0, AfterFailure(task, Invalidate(task, st0)))
    [] OTHER ->  \* run, other, fail*, kill*, prompt
         LET c == UpToDate(task, TRUE) st0 == [ck |-> c.ck, mk |-> c.mk] IN
         IF c.up THEN out(<<>>, IF mode = "cancelsib" THEN 201 ELSE 0, st0)
         ELSE IF mode = "prompt"
         THEN out(<<>>, 205, IF "PromptKeeps" \in KF THEN st0 ELSE AfterFailure(task, st0))
         ELSE LET b == Body(mode) st == Invalidate(task, st0) IN
              CASE b.how = "ok"   -> out(b.ran, b.exit, AfterSuccess(task, st))
                [] b.how = "fail" -> out(b.ran, b.exit, AfterFailure(task, st))
                [] b.how = "kill" -> out(b.ran, b.exit, st)

Modes == {"run", "other", "fail1", "fail2", "failpre", "depfail1", "forcefail1", "retryfail1", "cancelsib", "kill1", "kill2", "prompt", "force", "dry", "status", "list", "listjson", "summary", "drydir", "dryfailpre", "dryforce"}

\* an invocation as the model sees it: the observation is the prediction, read-only modes change nothing
Invoke(mode) ==
  LET p == Predict(mode) IN
  /\ (mode = "prompt") => cfg.prompt
  /\ Invocation(mode, [ran |-> p.ran, exit |-> p.exit, diff |-> (mode \in ReadOnly /\ (p.ck # ck \/ p.mk # mk))])
  /\ ck' = p.ck /\ mk' = p.mk

Ops == {[op |-> o, f |-> f] : o \in {"edit", "touch", "add", "addold", "rm"}, f \in Files}
       \cup {[op |-> "ren", f |-> "a", g |-> "b"], [op |-> "ren", f |-> "b", g |-> "a"], [op |-> "rmgen"], [op |-> "flip"]}

Configs == [method : {"checksum", "timestamp"}, gen : BOOLEAN, status : BOOLEAN, prompt : BOOLEAN, collide : BOOLEAN, reinc : BOOLEAN]

Init == /\ cfg \in Configs /\ WorldInit /\ MonInit /\ StoreInit

Next == \/ \E o \in Ops : FileOp(o) /\ (o.op = "flip" => cfg.status) /\ UNCHANGED svars
        \/ \E m \in Modes : Invoke(m)

vars == <<wvars, pvars, svars>>
Spec == Init /\ [][Next]_vars
Depth == clock <= MaxClock
\* the signature bookkeeping of the monitor (which invocation came before) does not influence
\* whether a violation is raised; hide it from the fingerprint of MC states
MCView == <<cfg, files, gen, stat, clock, [t \in Tasks |-> <<ok[t].valid, ok[t].fp>>], bad = {}, ck, mk>>
=============================================================================
