------------------------------ MODULE FpTrace ------------------------------
(***************************************************************************)
(* Replays recorded histories (FpData: Histories).  For every step the     *)
(* file operation is applied to the world, or the OBSERVED outcome of the  *)
(* invocation is fed to the property monitor; the model's prediction for   *)
(* the same step is compared with the observation and differences are      *)
(* collected in `drift` (conformance).  One verdict line per history.      *)
(* With observed = "?" the spec is used as a generator: it only prints the *)
(* model's predictions.                                                    *)
(***************************************************************************)
EXTENDS Fingerprint, FpData
VARIABLES h, l, steps, drift

tvars == <<vars, h, l, steps, drift>>
KFNone == {}

Load(k) ==
  /\ cfg' = Histories[k].cfg /\ steps' = Histories[k].steps
  /\ files' = [f \in Files |-> [c |-> IF f = "b" THEN 0 ELSE 1, m |-> 1]]
  /\ gen' = [present |-> FALSE, m |-> 0] /\ stat' = TRUE /\ clock' = 2
  /\ ok' = [t \in Tasks |-> [valid |-> FALSE, fp |-> {}, how |-> "none", at |-> 0]] /\ bad' = {}
  /\ ck' = [k2 \in Tasks |-> None] /\ mk' = [k2 \in Tasks |-> [present |-> FALSE, m |-> 0]]
  /\ drift' = {}

TInit ==
  /\ h = 1 /\ l = 1
  /\ cfg = Histories[1].cfg /\ steps = Histories[1].steps
  /\ WorldInit /\ MonInit /\ StoreInit /\ drift = {}

\* a recorded file operation presupposes the world the driver assumed (the file exists, the generated file is
\* there); when an earlier observation contradicts that assumption - the implementation did something the driver
\* did not expect - the operation is skipped and noted, so that the rest of the history and the following
\* histories are still evaluated
Applicable(op) ==
  CASE op.op \in {"edit", "touch", "rm"} -> files[op.f].c # 0
    [] op.op \in {"add", "addold"}     -> files[op.f].c = 0
    [] op.op = "ren"                   -> files[op.f].c # 0 /\ files[op.g].c = 0
    [] op.op = "rmgen"                 -> gen.present
    [] OTHER                           -> TRUE

Step ==
  /\ l <= Len(steps)
  /\ LET s == steps[l] IN
     IF s.op = "inv"
     THEN LET p == Predict(s.mode)
              obs == [ran |-> s.ran, exit |-> s.exit, diff |-> s.diff]
          IN /\ Invocation(s.mode, obs)
             /\ ck' = p.ck /\ mk' = p.mk
             /\ drift' = drift \cup
                  (IF p.ran # s.ran \/ p.exit # s.exit
                   THEN {[step |-> l, mode |-> s.mode, want |-> <<p.ran, p.exit>>, got |-> <<s.ran, s.exit>>]} ELSE {})
     ELSE IF Applicable(s)
     THEN /\ FileOp(s) /\ UNCHANGED <<svars, drift>>
     ELSE /\ UNCHANGED <<vars>>
          /\ drift' = drift \cup {[step |-> l, mode |-> "file-operation-not-applicable", want |-> <<>>, got |-> <<>>]}
  /\ l' = l + 1 /\ UNCHANGED <<h, steps>>

NextHistory ==
  /\ l = Len(steps) + 1
  /\ PrintT("VERDICT|" \o Histories[h].id \o "|" \o ToString(bad) \o "|" \o ToString(drift))
  /\ IF h < Len(Histories)
     THEN /\ h' = h + 1 /\ l' = 1 /\ Load(h + 1)
     ELSE /\ l' = l + 1 /\ UNCHANGED <<vars, h, steps, drift>>

TNext == Step \/ NextHistory
TSpec == TInit /\ [][TNext]_tvars
=============================================================================
