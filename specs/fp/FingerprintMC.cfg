SPECIFICATION Spec
CONSTANTS
  KF <- KFNone
  MaxClock = 6
INVARIANT Inv_NoViolation
CONSTRAINT Depth
VIEW MCView
CHECK_DEADLOCK FALSE
