------------------------------ MODULE FpProps ------------------------------
(***************************************************************************)
(* C04 / C05 / C12 as a monitor over an OBSERVED history of a project      *)
(* directory: file operations performed by the driver and Task invocations *)
(* with what was observed of them (which body markers were written, exit   *)
(* status, whether the directory snapshot changed).  Nothing here says how *)
(* Task decides; the monitor accepts every history and records tagged      *)
(* violations in `bad`.                                                    *)
(*                                                                         *)
(* World: source files a, b (matched by the task's sources) and x (matched *)
(* by the glob but excluded by a later `exclude:` entry), one generated    *)
(* file, the result of the status command, a logical clock for mtimes.     *)
(***************************************************************************)
EXTENDS Naturals, Sequences, FiniteSets, TLC

VARIABLES cfg,     \* [method, gen, status, prompt] of the task under test
          files,   \* file -> [c: 0 absent | 1 | 2, m: mtime]
          gen,     \* [present, m]
          stat,    \* status command says "up to date"
          clock,
          ok,      \* task -> [valid, fp, how]: fingerprint of the most recent attempt, whether it succeeded, its mode
          bad

wvars == <<cfg, files, gen, stat, clock>>
pvars == <<ok, bad>>

Files == {"a", "b", "x"}
\* with cfg.reinc the sources list re-includes x after the exclude entry (entries are honoured in order)
Matched == {f \in (IF cfg.reinc THEN {"a", "b", "x"} ELSE {"a", "b"}) : files[f].c # 0}
Tasks == {"t", "u"}

\* the fingerprint the property speaks of: names and contents (checksum), modification times (timestamp)
FP == IF cfg.method = "checksum" THEN {<<f, files[f].c>> : f \in Matched}
      ELSE {<<f, files[f].m>> : f \in Matched}

GenOK == ~cfg.gen \/ gen.present
StatOK == ~cfg.status \/ stat

Viol(p, s) == [prop |-> p, sig |-> s]

\* classification of an unsound skip, for the signature
\* is some source newer than both the last attempt and the generated file?
Newer(o) == LET ref == IF cfg.gen /\ gen.present /\ gen.m > o.at THEN gen.m ELSE o.at
            IN IF \E f \in Matched : files[f].m >= ref THEN "some" ELSE "none"
\* the name collision can only be the cause once the OTHER task has been attempted
Class(o, task) == ":newer-source=" \o Newer(o) \o ":generates=" \o (IF ~cfg.gen THEN "na" ELSE IF gen.present THEN "present" ELSE "absent")
            \o (IF cfg.collide /\ ok[IF task = "t" THEN "u" ELSE "t"].how # "none" THEN ":colliding-names" ELSE "")

ReadOnly == {"dry", "status", "list", "listjson", "summary", "drydir", "dryfailpre", "dryforce"}
RunModes == {"run", "other", "fail1", "fail2", "failpre", "depfail1", "retryfail1", "cancelsib", "prompt", "kill1", "kill2"}

WorldInit ==
  /\ files = [f \in Files |-> [c |-> IF f = "b" THEN 0 ELSE 1, m |-> 1]]
  /\ gen = [present |-> FALSE, m |-> 0]
  /\ stat = TRUE
  /\ clock = 2
MonInit == ok = [t \in Tasks |-> [valid |-> FALSE, fp |-> {}, how |-> "none", at |-> 0]] /\ bad = {}

\* ---- file operations performed by the driver (observable by construction)
FileOp(op) ==
  /\ clock' = clock + 1
  /\ CASE op.op = "edit"   -> /\ files[op.f].c # 0
                              /\ files' = [files EXCEPT ![op.f] = [c |-> 3 - @.c, m |-> clock]]
                              /\ UNCHANGED <<gen, stat>>
       [] op.op = "touch"  -> /\ files[op.f].c # 0
                              /\ files' = [files EXCEPT ![op.f].m = clock]
                              /\ UNCHANGED <<gen, stat>>
       [] op.op = "add"    -> /\ files[op.f].c = 0
                              /\ files' = [files EXCEPT ![op.f] = [c |-> 1, m |-> clock]]
                              /\ UNCHANGED <<gen, stat>>
       [] op.op = "addold" -> /\ files[op.f].c = 0
                              /\ files' = [files EXCEPT ![op.f] = [c |-> 1, m |-> 0]]
                              /\ UNCHANGED <<gen, stat>>
       [] op.op = "rm"     -> /\ files[op.f].c # 0
                              /\ files' = [files EXCEPT ![op.f] = [c |-> 0, m |-> 0]]
                              /\ UNCHANGED <<gen, stat>>
       [] op.op = "ren"    -> /\ files[op.f].c # 0 /\ files[op.g].c = 0
                              /\ files' = [files EXCEPT ![op.g] = files[op.f], ![op.f] = [c |-> 0, m |-> 0]]
                              /\ UNCHANGED <<gen, stat>>
       [] op.op = "rmgen"  -> /\ gen.present /\ gen' = [present |-> FALSE, m |-> 0]
                              /\ UNCHANGED <<files, stat>>
       [] op.op = "flip"   -> /\ stat' = ~stat /\ UNCHANGED <<files, gen>>
  /\ UNCHANGED <<cfg, ok, bad>>

\* ---- an invocation of Task and what was observed: ran = sequence of body markers, exit, diff
\* `mode = "other"` runs task u (same sources and generates, different name).
\* in mode "cancelsib" the invocation always fails (the sibling does); the task itself was skipped when its body did not start
SkippedIn(mode, obs) == obs.ran = <<>> /\ (obs.exit = 0 \/ mode = "cancelsib")
Succeeded(obs) == obs.ran = <<1, 2>> /\ obs.exit = 0

InvViol(mode, obs) ==
  LET task == IF mode = "other" THEN "u" ELSE "t"
      o == ok[task]
      clean == o.valid /\ o.fp = FP
  IN
  \* C04: skipped only if the most recent attempt for this fingerprint succeeded and generates exist
  (IF mode \in RunModes /\ SkippedIn(mode, obs) /\ ~(clean /\ GenOK)
   THEN {Viol("C04", (IF ~clean THEN "skipped-unsound" ELSE "skipped-with-missing-generates")
                       \o ":" \o cfg.method \o ":last-attempt=" \o (IF o.valid THEN (IF o.how = "force" THEN "ok-forced" ELSE "ok") ELSE o.how) \o Class(o, task))} ELSE {})
  \cup
  \* C05: idempotence, and re-execution after any change
  (IF mode \in RunModes /\ ~SkippedIn(mode, obs) /\ clean /\ GenOK /\ StatOK
   THEN {Viol("C05", "rerun-without-change:" \o cfg.method \o ":after-" \o o.how)} ELSE {})
  \cup
  (IF mode \in RunModes /\ SkippedIn(mode, obs) /\ o.valid /\ o.fp # FP
   THEN {Viol("C05", "skipped-after-change:" \o cfg.method \o (IF o.how = "force" THEN ":after-force" ELSE "") \o Class(o, task))} ELSE {})
  \cup
  (IF mode \in RunModes /\ SkippedIn(mode, obs) /\ clean /\ ~GenOK
   THEN {Viol("C05", "skipped-with-missing-generates:" \o cfg.method)} ELSE {})
  \cup
  (IF mode \in RunModes /\ SkippedIn(mode, obs) /\ clean /\ GenOK /\ ~StatOK
   THEN {Viol("C05", "skipped-with-failing-status")} ELSE {})
  \cup
  (IF mode = "force" /\ obs.ran = <<>> THEN {Viol("C05", "force-did-not-run")} ELSE {})
  \cup
  \* C12: read-only modes run nothing and change nothing
  (IF mode \in ReadOnly /\ obs.ran # <<>> THEN {Viol("C12", "body-ran-" \o mode)} ELSE {})
  \cup
  (IF mode \in ReadOnly /\ obs.diff THEN {Viol("C12", "files-changed-" \o mode)} ELSE {})

Invocation(mode, obs) ==
  LET task == IF mode = "other" THEN "u" ELSE "t" IN
  /\ bad' = bad \cup InvViol(mode, obs)
  /\ ok' = IF mode \in ReadOnly \/ (SkippedIn(mode, obs) /\ mode \in RunModes) THEN ok
           ELSE [ok EXCEPT ![task] = [valid |-> Succeeded(obs), fp |-> FP, how |-> mode, at |-> clock]]
  \* effect of the body on the world: marker 2 is written after the generated file is touched
  /\ IF cfg.gen /\ (\E i \in 1..Len(obs.ran) : obs.ran[i] = 2)
     THEN gen' = [present |-> TRUE, m |-> clock] ELSE UNCHANGED gen
  /\ clock' = clock + 1
  /\ UNCHANGED <<cfg, files, stat>>

Inv_NoViolation == bad = {}
=============================================================================
