SPECIFICATION Spec
CONSTANTS
  KF <- KFOpen
  MaxClock = 6
INVARIANT Inv_NoViolation
CONSTRAINT Depth
VIEW MCView
CHECK_DEADLOCK FALSE
