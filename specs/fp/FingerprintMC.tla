--------------------------- MODULE FingerprintMC ---------------------------
EXTENDS Fingerprint, FpData
KFNone == {}
KFPinned == {"WriteBeforeRun", "PromptKeeps", "ListJsonWrites", "TsKeepsOnError", "TsMissingGen", "TsNewerOnly", "NameCollision"}
=============================================================================
