------------------------------- MODULE Merge -------------------------------
(***************************************************************************)
(* C08 / C09: what the merged task table of an include tree must be.       *)
(* Declarative: Exp(f) is the ordered list of entries file f exports:      *)
(* its own tasks in file order, then, for each include in declaration      *)
(* order, the lifted entries of the included file.  The callable table is  *)
(* Exp(root).  Nothing here mirrors the merge algorithm of graph.go.       *)
(*                                                                         *)
(* An entry: name (sequence of segments, joined with ":"), aliases (set of *)
(* names), origin <<file, task>>, internal, dir (<<including file, dir>> of *)
(* the innermost include, <<>> for root tasks: the working directory is    *)
(* that of the including file joined with the include's dir), iv (value    *)
(* of the include-statement variable IV, the outermost include wins, ""    *)
(* when none), deps / calls (names the references resolve to).             *)
(* A cases specification: the include tree is chosen in Init, the expected *)
(* table is a state variable, one line is printed per tree.                *)
(***************************************************************************)
EXTENDS Naturals, Sequences, FiniteSets, SequencesExt, TLC

CONSTANT MaxOptions   \* how many include options may deviate from the default in one tree

VARIABLES tree, exp

\* ---- the fixed files (the driver writes the same files)
T(n, al, deps, calls) == [n |-> n, al |-> al, deps |-> deps, calls |-> calls]
FileTasks == [
  R |-> << T("r1", {}, <<>>, <<>>), T("r2", {}, <<"r1">>, <<>>) >>,
  A |-> << T("t1", {"al"}, <<>>, <<>>), T("t2", {}, <<"t1">>, <<"t1", ":r1">>), T("default", {}, <<>>, <<>>),
          T("t4", {}, <<>>, <<>>), T("x:own", {}, <<>>, <<>>) >>,   \* a task whose name begins like the namespace x
  B |-> << T("t1", {}, <<>>, <<>>), T("t3", {}, <<"t1">>, <<>>) >>,
  C |-> << T("c1", {}, <<>>, <<":r1">>), T("default", {}, <<>>, <<>>) >>,
  D |-> << T("d1", {}, <<>>, <<>>) >> ]

\* ---- include statements
Inc(ns, f) == [ns |-> ns, file |-> f, flatten |-> FALSE, internal |-> FALSE, missing |-> "no",
               alias |-> "", exclude |-> "", dir |-> "", iv |-> ""]
\* tag: every include statement passes its own value for the include variable IV
Variants(i, tag) ==
  {i, [i EXCEPT !.flatten = TRUE], [i EXCEPT !.internal = TRUE], [i EXCEPT !.missing = "optional"],
   [i EXCEPT !.missing = "required"], [i EXCEPT !.missing = "present-optional"], [i EXCEPT !.alias = "z"], [i EXCEPT !.exclude = "t1"], [i EXCEPT !.exclude = "default"],
   [i EXCEPT !.dir = "sub"], [i EXCEPT !.iv = tag \o i.ns]}
Variants2(i, tag) == UNION {Variants(j, tag) : j \in Variants(i, tag)}
NonDefault(i) == Cardinality({k \in {"flatten", "internal", "missing", "alias", "exclude", "dir", "iv"} :
                                 i[k] # Inc(i.ns, i.file)[k]})

\* missing: "no" the file exists; "optional" / "required" it does not (with / without optional: true);
\* "present-optional" it exists and the statement says optional: true - which only forgives the absence of that
\* very file, never an error further down
Present(inc) == inc.missing \in {"no", "present-optional"}

\* trees: what root, A, B and C include
RootIncs == {<<>>} \cup {<<i>> : i \in Variants2(Inc("x", "A"), "r") \cup Variants2(Inc("x", "B"), "r") \cup Variants2(Inc("x", "C"), "r")}
            \cup {<<i, j>> : i \in Variants2(Inc("x", "A"), "r"), j \in Variants2(Inc("y", "B"), "r") \cup Variants2(Inc("y", "A"), "r") \cup Variants2(Inc("y", "C"), "r")}
AIncs == {<<>>} \cup {<<i>> : i \in Variants(Inc("n", "C"), "a")}
BIncs == {<<>>} \cup {<<i>> : i \in Variants(Inc("n", "C"), "b")}
\* C may include A (a cycle) or the leaf D (with or without its own include variable)
CIncs == {<<>>, <<Inc("m", "A")>>, <<Inc("d", "D")>>, <<[Inc("d", "D") EXCEPT !.iv = "cd"]>>}
\* clash: the root file additionally defines a task literally named "x:t1" (task names may contain ':')
RECURSIVE CountSeq(_)
CountSeq(is) == IF is = <<>> THEN 0 ELSE NonDefault(Head(is)) + CountSeq(Tail(is))
Within(S) == {x \in S : CountSeq(x) <= MaxOptions}
Options(t) == CountSeq(t.R) + CountSeq(t.A) + CountSeq(t.B) + CountSeq(t.C) + (IF t.clash THEN 1 ELSE 0)

\* ---- which files are reachable, cycles
RECURSIVE Reach(_, _, _)
Reach(t, f, fuel) == IF fuel = 0 THEN {f}
                     ELSE {f} \cup UNION {Reach(t, t[f][k].file, fuel - 1) : k \in {k \in 1..Len(t[f]) : Present(t[f][k])}}
RECURSIVE OnCycle(_, _, _, _)
OnCycle(t, start, f, fuel) ==
  fuel > 0 /\ \E k \in 1..Len(t[f]) : Present(t[f][k]) /\ (t[f][k].file = start \/ OnCycle(t, start, t[f][k].file, fuel - 1))
HasCycle(t) == \E f \in Reach(t, "R", 4) : OnCycle(t, f, f, 4)
MissingRequired(t) == \E f \in Reach(t, "R", 4) : \E k \in 1..Len(t[f]) : t[f][k].missing = "required"

\* ---- references
IsAbs(ref) == ref \in {":r1"}
RefName(ref) == IF ref = ":r1" THEN <<"r1">> ELSE <<ref>>
Ref(ref) == [abs |-> IsAbs(ref), name |-> RefName(ref)]

RECURSIVE Join(_)
Join(s) == IF s = <<>> THEN "" ELSE IF Len(s) = 1 THEN s[1] ELSE s[1] \o ":" \o Join(Tail(s))

Own(f) == [k \in 1..Len(FileTasks[f]) |->
             LET tk == FileTasks[f][k] IN
             [name |-> <<tk.n>>, aliases |-> {<<a>> : a \in tk.al}, origin |-> <<f, tk.n>>, internal |-> FALSE,
              dir |-> <<>>, iv |-> "", deps |-> [j \in 1..Len(tk.deps) |-> Ref(tk.deps[j])],
              calls |-> [j \in 1..Len(tk.calls) |-> Ref(tk.calls[j])]]]

LiftRef(inc, r) == IF r.abs \/ inc.flatten THEN r ELSE [r EXCEPT !.name = <<inc.ns>> \o @]

LiftEntry(f, inc, e, parentHasNs) ==
  LET pre(n) == <<inc.ns>> \o n
      nsal == IF inc.alias = "" THEN {} ELSE {<<inc.alias>> \o x : x \in {e.name} \cup e.aliases}
      dflt == IF e.name = <<"default">> /\ ~parentHasNs
              THEN {<<inc.ns>>} \cup (IF inc.alias = "" THEN {} ELSE {<<inc.alias>>}) ELSE {}
  IN [e EXCEPT
       !.name = IF inc.flatten THEN @ ELSE pre(@),
       !.aliases = IF inc.flatten THEN @ ELSE {pre(a) : a \in @} \cup nsal \cup dflt,
       !.internal = @ \/ inc.internal,
       !.dir = IF @ # <<>> THEN @ ELSE <<f, inc.dir>>,   \* the innermost include decides: <including file, dir>
       !.iv = IF inc.iv = "" THEN @ ELSE inc.iv,
       !.deps = [j \in 1..Len(@) |-> LiftRef(inc, @[j])],
       !.calls = [j \in 1..Len(@) |-> LiftRef(inc, @[j])]]

RECURSIVE Exp(_, _, _)
Exp(t, f, fuel) ==
  IF fuel = 0 THEN <<>>
  ELSE LET own == IF f = "R" /\ t.clash
                    THEN Own(f) \o << [name |-> <<"x", "t1">>, aliases |-> {}, origin |-> <<"R", "x:t1">>, internal |-> FALSE,
                                        dir |-> <<>>, iv |-> "", deps |-> <<>>, calls |-> <<>>] >>
                    ELSE Own(f)
           sub(k) == LET inc == t[f][k] IN
                     IF ~Present(inc) THEN <<>>
                     ELSE LET es == SelectSeq(Exp(t, inc.file, fuel - 1), LAMBDA e : inc.exclude = "" \/ Join(e.name) # inc.exclude)
                              parentHasNs == \E j \in 1..Len(own) : own[j].name = <<inc.ns>>
                          IN [j \in 1..Len(es) |-> LiftEntry(f, inc, es[j], parentHasNs)]
       IN own \o FlattenSeq([k \in 1..Len(t[f]) |-> sub(k)])

Duplicates(es) == \E i, j \in 1..Len(es) : i < j /\ es[i].name = es[j].name

Expected(t) ==
  LET es == IF HasCycle(t) THEN <<>> ELSE Exp(t, "R", 5) IN
  [errs |-> (IF HasCycle(t) THEN {110} ELSE {}) \cup (IF MissingRequired(t) THEN {100, 1} ELSE {})   \* "reported as an error"; the class is not fixed by the property
            \cup (IF ~HasCycle(t) /\ Duplicates(es) THEN {203} ELSE {}),
   table |-> [k \in 1..Len(es) |->
               [name |-> Join(es[k].name), aliases |-> {Join(a) : a \in es[k].aliases}, file |-> es[k].origin[1], task |-> es[k].origin[2],
                internal |-> es[k].internal, dir |-> es[k].dir, iv |-> es[k].iv,
                \* an alias that several entries carry (two includes with the same namespace alias) names no single
                \* task: requesting it is an error (203), not a silent choice; an exact task name always wins
                ambiguous |-> {Join(a) : a \in {x \in es[k].aliases :
                                  /\ \E j \in 1..Len(es) : j # k /\ x \in es[j].aliases
                                  /\ \A j \in 1..Len(es) : es[j].name # x}},
                deps |-> [j \in 1..Len(es[k].deps) |-> Join(es[k].deps[j].name)],
                calls |-> [j \in 1..Len(es[k].calls) |-> Join(es[k].calls[j].name)]]]]

\* besides the trees with at most MaxOptions options: every tree whose root has ONE include statement that carries
\* TWO options (flatten + internal, aliases + excludes, ...), everything else default
PairOnOne(r) == Len(r) = 1 /\ NonDefault(r[1]) = 2
Init == /\ \/ \E r \in Within(RootIncs), a \in Within(AIncs), b \in Within(BIncs), c \in CIncs, k \in BOOLEAN :
                /\ CountSeq(r) + CountSeq(a) + CountSeq(b) + CountSeq(c) + (IF k THEN 1 ELSE 0) <= MaxOptions
                /\ tree = [R |-> r, A |-> a, B |-> b, C |-> c, D |-> <<>>, clash |-> k]
           \/ \E r \in {x \in RootIncs : PairOnOne(x)} :
                /\ MaxOptions < 2
                /\ tree = [R |-> r, A |-> <<>>, B |-> <<>>, C |-> <<>>, D |-> <<>>, clash |-> FALSE]
           \* an optional include whose file exists, with an error further down (a missing required file, a cycle)
           \/ \E a \in {<<[Inc("n", "C") EXCEPT !.missing = "required"]>>, <<Inc("n", "C")>>}, c \in {<<>>, <<Inc("m", "A")>>, <<[Inc("d", "D") EXCEPT !.missing = "required"]>>} :
                /\ MaxOptions < 2
                /\ tree = [R |-> <<[Inc("x", "A") EXCEPT !.missing = "present-optional"]>>, A |-> a, B |-> <<>>, C |-> c, D |-> <<>>, clash |-> FALSE]
           \* the diamond whose two sides pass different include variables to the shared file, which includes a leaf
           \/ \E c \in {<<Inc("d", "D")>>, <<[Inc("d", "D") EXCEPT !.iv = "cd"]>>, <<>>} :
                /\ MaxOptions < 2
                /\ tree = [R |-> <<Inc("x", "A"), Inc("y", "B")>>, A |-> <<[Inc("n", "C") EXCEPT !.iv = "an"]>>,
                           B |-> <<[Inc("n", "C") EXCEPT !.iv = "bn"]>>, C |-> c, D |-> <<>>, clash |-> FALSE]
        /\ exp = Expected(tree)
Next == FALSE /\ UNCHANGED <<tree, exp>>
Spec == Init /\ [][Next]_<<tree, exp>>
Emit == PrintT("CASE|" \o ToString([tree |-> tree, exp |-> exp]))
=============================================================================
