SPECIFICATION Spec
CONSTANTS
  Sigma <- SigmaQ
  MaxLen = 2
  AliasU <- AliasQ
  NTasks = 2
  NameU <- NoNames
  Letters <- LettersQ
CONSTRAINT Emit
CHECK_DEADLOCK FALSE
