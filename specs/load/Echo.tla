-------------------------------- MODULE Echo --------------------------------
(***************************************************************************)
(* Beyond the listed properties: what Task itself prints about a command   *)
(* (task.go runCommand / RunTask).  Before a command runs, the line        *)
(*     task: [NAME] COMMAND                                                *)
(* is written to stderr unless something silences it: silent: true on the  *)
(* Taskfile, on the task, on the command, on the call (task: / deps entry  *)
(* with silent: true) or --silent; --verbose overrides every silencer.     *)
(* NAME is the label when the task has one.  With --dry the line is        *)
(* printed under the same rule and the command does not run.  A task whose *)
(* status says up to date prints  task: Task "NAME" is up to date  under   *)
(* the same rule (the command-level silent does not apply to it).          *)
(* Cases specification: one configuration per initial state.               *)
(***************************************************************************)
EXTENDS Naturals, Sequences, TLC

VARIABLES cfg, exp

Via == {"direct", "call", "callsilent", "dep", "depsilent"}
Cfgs == [gsilent : BOOLEAN, tsilent : BOOLEAN, csilent : BOOLEAN, fsilent : BOOLEAN, verbose : BOOLEAN,
         dry : BOOLEAN, label : BOOLEAN, uptodate : BOOLEAN, via : Via]

CallSilent(c) == c.via \in {"callsilent", "depsilent"}

Expected(c) ==
  LET quietTask == CallSilent(c) \/ c.tsilent \/ c.gsilent \/ c.fsilent
      quietCmd  == quietTask \/ c.csilent
  IN [name     |-> IF c.label THEN "the label" ELSE "target",
      echoed   |-> ~c.uptodate /\ (c.verbose \/ ~quietCmd),
      ran      |-> ~c.uptodate /\ ~c.dry,
      uptodate |-> c.uptodate /\ (c.verbose \/ ~quietTask)]

Init == cfg \in Cfgs /\ exp = Expected(cfg)
Next == FALSE /\ UNCHANGED <<cfg, exp>>
Spec == Init /\ [][Next]_<<cfg, exp>>
Emit == PrintT("CASE|" \o ToString([cfg |-> cfg, exp |-> exp]))
=============================================================================
