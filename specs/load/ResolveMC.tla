---- MODULE ResolveMC ----
EXTENDS Resolve
SigmaQ == {"a", ":", "*", "(", "."}
SigmaT == {"a", "b", ":", "*", "(", ".", "-", "+", "$"}
AliasQ == {<<>>, <<"a">>, <<"a", ":">>, <<"(">>}
NoNames == {}
LettersQ == {"a", "b", "c", "d"}
SuggNames == {<<"a","b","c","d">>, <<"d","c","b","a","a">>}
SigmaS == {"a", "b", "c", "d"}
AliasNone == {<<>>}
AliasQ2 == {<<>>, <<"a">>}
\* longer patterns: text on both sides of the star (overlapping when the star is empty), two stars, dots
SigmaW == {"a", ".", "*"}
WildNames == {<<"a","*","a">>, <<"a",".","*",".","a">>, <<"*","a","*">>, <<"a","*","*">>, <<"a","a">>, <<"a",".","a">>, <<"*">>, <<"a","*",".","a">>}
AliasW == {<<>>, <<"a",".","a">>, <<"a">>}
====
