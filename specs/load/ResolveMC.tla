---- MODULE ResolveMC ----
EXTENDS Resolve
SigmaQ == {"a", ":", "*", "(", "."}
SigmaT == {"a", "b", ":", "*", "(", ".", "-", "+", "$"}
AliasQ == {<<>>, <<"a">>, <<"a", ":">>, <<"(">>}
NoNames == {}
LettersQ == {"a", "b", "c", "d"}
SuggNames == {<<"a","b","c","d">>, <<"d","c","b","a","a">>}
SigmaS == {"a", "b", "c", "d"}
AliasNone == {<<>>}
AliasQ2 == {<<>>, <<"a">>}
====
