------------------------------ MODULE Resolve ------------------------------
(***************************************************************************)
(* C15: which task a requested name runs.  Names are sequences of one-     *)
(* character strings over an alphabet with regex metacharacters.           *)
(*   1. the task with exactly that name;                                   *)
(*   2. else the first task, in table order, whose name matches as a       *)
(*      pattern in which ONLY '*' is special (each '*' stands for any,     *)
(*      possibly empty, substring; MATCH = the substrings);                *)
(*   3. else the unique task having the name as an alias;                  *)
(*   several alias owners -> error 203; nothing -> error 200, and when     *)
(*   exactly one task name or alias is at edit distance 1 the error        *)
(*   suggests it.                                                          *)
(* The module is a "cases" specification: a configuration (the table) is   *)
(* chosen in Init, the expected answers for every request are a state      *)
(* variable, and one line per configuration is printed for the harness.    *)
(***************************************************************************)
EXTENDS Naturals, Sequences, FiniteSets, TLC

CONSTANTS Sigma,     \* alphabet (set of one-character strings)
          MaxLen,    \* maximal length of a task name / request
          AliasU,    \* universe of aliases (set of sequences); <<>> = no alias
          NTasks,    \* 2 or 3
          NameU,     \* {} = all names up to MaxLen over Sigma, else this set of names
          Letters    \* characters of which "ordinary" names consist (suggestion clause)

VARIABLES tab, exp

RECURSIVE SeqsUpTo(_)
SeqsUpTo(n) == IF n = 0 THEN {<<>>} ELSE LET S == SeqsUpTo(n - 1) IN S \cup {Append(s, c) : s \in S, c \in Sigma}
Names == IF NameU = {} THEN SeqsUpTo(MaxLen) \ {<<>>} ELSE NameU

\* only '*' is special
RECURSIVE Matches(_, _)
Matches(p, s) ==
  IF p = <<>> THEN s = <<>>
  ELSE IF Head(p) = "*" THEN \E k \in 0..Len(s) : Matches(Tail(p), SubSeq(s, k + 1, Len(s)))
  ELSE s # <<>> /\ Head(s) = Head(p) /\ Matches(Tail(p), Tail(s))

HasStar(p) == \E i \in 1..Len(p) : p[i] = "*"

\* edit distance exactly 1 (one substitution, insertion or deletion)
Dist1(a, b) ==
  \/ Len(a) = Len(b) /\ Cardinality({i \in 1..Len(a) : a[i] # b[i]}) = 1
  \/ Len(a) = Len(b) + 1 /\ \E i \in 1..Len(a) : SubSeq(a, 1, i - 1) \o SubSeq(a, i + 1, Len(a)) = b
  \/ Len(b) = Len(a) + 1 /\ \E i \in 1..Len(b) : SubSeq(b, 1, i - 1) \o SubSeq(b, i + 1, Len(b)) = a

Requests == IF NameU = {} THEN Names \cup (AliasU \ {<<>>})
            ELSE Names \cup (AliasU \ {<<>>}) \cup {r \in SeqsUpTo(MaxLen) : Len(r) <= 3 \/ \E n \in NameU : Dist1(n, r)}

\* the suggestion is a spelling heuristic; the specification only fixes it for ordinary names:
\* at least four characters, all of them letters
Ordinary(w) == Len(w) >= 4 /\ \A i \in 1..Len(w) : w[i] \in Letters

Resolve(t, req) ==
  LET exact == {i \in 1..Len(t) : t[i].name = req}
      wild  == {i \in 1..Len(t) : HasStar(t[i].name) /\ Matches(t[i].name, req)}
      alias == {i \in 1..Len(t) : t[i].alias # <<>> /\ t[i].alias = req}
      words == {t[i].name : i \in 1..Len(t)} \cup ({t[i].alias : i \in 1..Len(t)} \ {<<>>})
      near  == {w \in words : Dist1(w, req)}
  IN IF exact # {} THEN [kind |-> "exact", idx |-> CHOOSE i \in exact : TRUE, sugg |-> <<>>]
     ELSE IF wild # {} THEN [kind |-> "wild", idx |-> CHOOSE i \in wild : \A j \in wild : i <= j, sugg |-> <<>>]
     ELSE IF Cardinality(alias) = 1 THEN [kind |-> "alias", idx |-> CHOOSE i \in alias : TRUE, sugg |-> <<>>]
     ELSE IF Cardinality(alias) > 1 THEN [kind |-> "err203", idx |-> 0, sugg |-> <<>>]
     ELSE [kind |-> "err200", idx |-> 0, sugg |-> IF Cardinality(near) = 1 /\ Ordinary(CHOOSE w \in near : TRUE) /\ Ordinary(req)
                                           THEN CHOOSE w \in near : TRUE ELSE <<>>]

\* ---- configurations: ordered tables of distinct names, each with an optional alias
Entry == [name : Names, alias : AliasU]
Tables == IF NTasks = 2
          THEN {<<a, b>> : a \in Entry, b \in Entry}
          ELSE {<<a, b, c>> : a \in Entry, b \in Entry, c \in Entry}
Distinct(t) == \A i, j \in 1..Len(t) : i # j => t[i].name # t[j].name

RECURSIVE Join(_)
Join(s) == IF s = <<>> THEN "" ELSE Head(s) \o Join(Tail(s))

Init == /\ tab \in {t \in Tables : Distinct(t)}
        /\ exp = [r \in Requests |-> Resolve(tab, r)]
Next == FALSE /\ UNCHANGED <<tab, exp>>
Spec == Init /\ [][Next]_<<tab, exp>>

\* one line per configuration: the table, then request=kind:idx:suggestion for every request
RECURSIVE ReqStr(_)
ReqStr(R) == IF R = {} THEN ""
             ELSE LET r == CHOOSE r \in R : TRUE e == exp[r] IN
                  Join(r) \o "," \o e.kind \o "," \o ToString(e.idx) \o "," \o Join(e.sugg) \o "/" \o ReqStr(R \ {r})
RECURSIVE TabStr(_, _)
TabStr(t, i) == IF i > Len(t) THEN "" ELSE Join(t[i].name) \o "," \o Join(t[i].alias) \o "/" \o TabStr(t, i + 1)
Emit == PrintT("CASE|" \o TabStr(tab, 1) \o "|" \o ReqStr(Requests))
=============================================================================
