SPECIFICATION Spec
CONSTRAINT Emit
CHECK_DEADLOCK FALSE
