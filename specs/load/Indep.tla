------------------------------- MODULE Indep -------------------------------
(***************************************************************************)
(* C11: what a task does depends on its definition, the variables of the   *)
(* call, the Taskfile tree, the environment and the file system - not on   *)
(* which other tasks ran before it or run next to it.                      *)
(* Calls: a task of the fixed library with an argument.  A scenario runs a *)
(* target call after (mode "seq") or next to (mode "par") a prefix of at   *)
(* most two other calls.  Lines(c) is what the call prints, a function of  *)
(* the call alone; "?" marks text the specification leaves to the          *)
(* implementation (it is then compared with the same call run alone).      *)
(* Cases specification: one scenario per initial state.                    *)
(***************************************************************************)
EXTENDS Naturals, Sequences, FiniteSets, TLC

CONSTANT MaxPrefix
VARIABLES sc, exp

C(t, a) == [t |-> t, a |-> a]
Calls == {C("dA", ""), C("dB", ""), C("eA", ""), C("eB", ""), C("cV", "one"), C("cV", "two"),
          C("sV", "one"), C("sV", "two"), C("mR", "l1"), C("mR", "l2"), C("fV", "s1"), C("fV", "s2"), C("dF", "one"), C("dF", "two"),
          C("gT", ""), C("gU", ""), C("gS", ""), C("gR", ""),
          C("rQ", "one"), C("rQ", ""), C("nA", ""), C("nB", "")}

Items(a) == CASE a = "l1" -> <<"1", "2">> [] a = "l2" -> <<"x">> [] a = "s1" -> <<"p", "q">> [] a = "s2" -> <<"r">> [] OTHER -> <<>>

\* what the call prints, in order
Lines(c) ==
  CASE c.t = "dA" -> <<"dA|ROOT/a">>                 \* D: {sh: pwd} with dir: ./a
    [] c.t = "dB" -> <<"dB|ROOT/b">>                 \* the same sh text with dir: ./b
    [] c.t = "eA" -> <<"eA|?">>                      \* D: {sh: 'echo $X'} with a task env
    [] c.t = "eB" -> <<"eB|?">>
    [] c.t = "cV" -> <<"cV|" \o c.a>>                \* prints the call variable
    [] c.t = "sV" -> <<"sV|" \o c.a>>                \* D: {sh: 'echo {{.V}}'}
    [] c.t = "mR" -> [i \in 1..Len(Items(c.a)) |-> "mR|" \o Items(c.a)[i]]   \* for: matrix: {X: {ref: .L}}
    [] c.t = "dF" -> <<"dF|work|" \o c.a, "dF|deferred|" \o c.a>>   \* a command and a deferred command printing the call variable
    [] c.t \in {"gT", "gU"} -> <<c.t \o "|g-" \o c.t>>   \* a Taskfile-level variable 'g-{{.TASK}}': per task, though defined once
    [] c.t \in {"gS", "gR"} -> <<c.t \o "|s-" \o c.t>>   \* a Taskfile-level sh: variable whose text mentions {{.TASK}}
    [] c.t = "nA" -> <<"nA|env-a">>                  \* dotenv: ['.env'] with dir: ./a - the file of THIS task's directory
    [] c.t = "nB" -> <<"nB|env-b">>                  \* the same entry with dir: ./b
    [] c.t = "rQ" -> IF c.a = "" THEN <<"rQ|!missing-required">> ELSE <<"rQ|" \o c.a>>   \* requires: {vars: [R]}: checked for THIS call
    [] c.t = "fV" -> [i \in 1..Len(Items(c.a)) |-> "fV|" \o Items(c.a)[i]]   \* for: {var: S}

\* a call that ends in an error would end the whole invocation: it only appears as the target
PCalls == Calls \ {C("rQ", "")}
Prefixes == {<<>>} \cup {<<c>> : c \in PCalls}
            \cup (IF MaxPrefix >= 2 THEN {<<c1, c2>> : c1 \in PCalls, c2 \in PCalls} ELSE {})
Scenarios == [target : Calls, prefix : Prefixes, mode : {"seq", "par"}]

Init == sc \in {s \in Scenarios : \A k \in 1..Len(s.prefix) : s.prefix[k] # s.target} /\ exp = Lines(sc.target)
Next == FALSE /\ UNCHANGED <<sc, exp>>
Spec == Init /\ [][Next]_<<sc, exp>>
Emit == PrintT("CASE|" \o ToString([sc |-> sc, exp |-> exp]))
=============================================================================
