-------------------------------- MODULE Vars --------------------------------
(***************************************************************************)
(* C10: the value a task sees for a variable / an environment variable.    *)
(* Variable N may be defined at the sites, from lowest to highest          *)
(* priority:  os (process environment), global (vars: of the root          *)
(* Taskfile), cli (NAME=value on the command line, same level as global,   *)
(* wins over it), incstmt (vars: of the include statement), incfile        *)
(* (vars: of the included Taskfile), call (vars: of the calling task),     *)
(* task (vars: of the task itself).  incstmt / incfile only apply to a     *)
(* task of the included file.                                              *)
(* Kinds: "lit" a literal named after the site; "tmpl" a template          *)
(* '{{.N}}+site' referring to the value of the lower-priority sites;       *)
(* "sh" a dynamic variable (sh: echo site-sh); "ref" a reference           *)
(* expression over the value of the lower-priority sites.                  *)
(* Environment variable E: task env > task dotenv > global env > global    *)
(* dotenv (whatever the kind of the env: entry: literal or sh:), the        *)
(* process environment wins over all unless the                            *)
(* env-precedence experiment is on, in which case it loses against all.    *)
(* Cases specification: one configuration per initial state.               *)
(***************************************************************************)
EXTENDS Naturals, Sequences, TLC

VARIABLES cfg, exp

K5 == {"none", "lit", "tmpl", "sh", "ref"}
K4 == {"none", "lit", "tmpl", "sh"}
KE == {"none", "lit", "sh"}
K3 == {"none", "lit", "sh"}
K2 == {"none", "lit"}

\* via: how the task is reached from the entry task (a task: command, a dependency, a deferred task call) - the
\* variables of the call site have the same rank in all three
VarCfgs == [k : {"var"}, loc : {"root", "inc"}, via : {"cmd", "dep", "defer"}, task : K5, call : K2, incfile : K3, incstmt : K2, global : K5, cli : K2, os : K2]
\* dotenv: which of the two listed files define E ("first" file wins)
D4 == {"none", "first", "second", "both"}
\* os: the process environment does not have E / has it with a value / has it with the EMPTY value (still "set")
EnvCfgs == [k : {"env"}, tenv : KE, tdot : D4, genv : KE, gdot : D4, os : {"unset", "set", "empty"}, experiment : BOOLEAN,
            evar : BOOLEAN]   \* a Taskfile-level VARIABLE of the same name exists: variables never decide the environment

Apply(cur, kind, site) ==
  CASE kind = "none" -> cur
    [] kind = "lit"  -> site
    [] kind = "tmpl" -> cur \o "+" \o site
    [] kind = "sh"   -> site \o "-sh"
    [] kind = "ref"  -> cur \o "+" \o site \o "-ref"

Value(c) ==
  LET v1 == Apply("", c.os, "os")
      v2 == IF c.cli # "none" THEN Apply(v1, c.cli, "cli") ELSE Apply(v1, c.global, "global")
      v3 == IF c.loc = "inc" THEN Apply(v2, c.incstmt, "incstmt") ELSE v2
      v4 == IF c.loc = "inc" THEN Apply(v3, c.incfile, "incfile") ELSE v3
      v5 == Apply(v4, c.call, "call")
  IN Apply(v5, c.task, "task")

EnvValue(c) ==
  LET dot(d, n) == IF d \in {"first", "both"} THEN n \o "1" ELSE n \o "2"
      ent(k, n) == IF k = "sh" THEN n \o "-sh" ELSE n
      file == IF c.tenv # "none" THEN ent(c.tenv, "tenv") ELSE IF c.tdot # "none" THEN dot(c.tdot, "tdot")
              ELSE IF c.genv # "none" THEN ent(c.genv, "genv") ELSE IF c.gdot # "none" THEN dot(c.gdot, "gdot") ELSE ""
      osval == IF c.os = "set" THEN "os" ELSE ""
  IN IF c.experiment THEN (IF file # "" THEN file ELSE osval)
     ELSE (IF c.os # "unset" THEN osval ELSE file)

\* a second Taskfile-level variable G2: '{{.N}}-g2', declared after N: it sees N as the global level leaves it.
\* A NAME=value of the command line replaces the value of a declared global in place; a name that the Taskfile does
\* not declare is appended after the declared ones, so G2 does not see it.  Nothing is stated ("?") when the include
\* statement or the included Taskfile also define N (their definitions are merged into the root's, see KF-LOAD-24).
Global2(c) ==
  IF c.incfile # "none" \/ c.incstmt # "none" THEN "?"
  ELSE LET v1 == Apply("", c.os, "os")
           v2 == IF c.global = "none" THEN v1
                 ELSE IF c.cli # "none" THEN Apply(v1, c.cli, "cli") ELSE Apply(v1, c.global, "global")
       IN v2 \o "-g2"

Init == /\ cfg \in VarCfgs \cup EnvCfgs
        /\ exp = IF cfg.k = "var" THEN Value(cfg) \o "|" \o Global2(cfg) ELSE EnvValue(cfg)
Next == FALSE /\ UNCHANGED <<cfg, exp>>
Spec == Init /\ [][Next]_<<cfg, exp>>
Emit == PrintT("CASE|" \o ToString([cfg |-> cfg, exp |-> exp]))
=============================================================================
