------------------------------- MODULE Locate -------------------------------
(***************************************************************************)
(* Beyond the listed properties: which Taskfile an invocation uses         *)
(* (internal/fsext Search / SearchPath / SearchPathRecursively, the        *)
(* --dir and --taskfile flags).  A chain of three directories L1/L2/L3,    *)
(* each holding a subset of the supported file names (here three of the    *)
(* eight, in priority order).  Expected: the file that is used and the     *)
(* directory the task runs in, or the "no Taskfile" error (100).           *)
(*   no flag          walk up from the working directory; in the first     *)
(*                    directory that has one, the highest-priority name    *)
(*   --dir D          the same, starting at D                              *)
(*   --taskfile DIR   only that directory, no walking up                   *)
(*   --taskfile FILE  that file (must exist)                               *)
(* Cases specification: one configuration per initial state.               *)
(***************************************************************************)
EXTENDS Naturals, Sequences, FiniteSets, TLC

VARIABLES cfg, exp

Names == <<"Taskfile.yml", "taskfile.yaml", "Taskfile.dist.yml">>     \* priority order
Levels == 1..3
Contents == SUBSET (1..Len(Names))

Best(S) == CHOOSE i \in S : \A j \in S : i <= j

RECURSIVE WalkUp(_, _)
WalkUp(files, l) == IF l = 0 THEN [found |-> FALSE, level |-> 0, name |-> 0]
                    ELSE IF files[l] # {} THEN [found |-> TRUE, level |-> l, name |-> Best(files[l])]
                    ELSE WalkUp(files, l - 1)

Flags == {[k |-> "none", l |-> 0, n |-> 0]}
         \cup {[k |-> "dir", l |-> l, n |-> 0] : l \in Levels}
         \cup {[k |-> "tfdir", l |-> l, n |-> 0] : l \in Levels}
         \cup {[k |-> "tffile", l |-> l, n |-> n] : l \in Levels, n \in 1..Len(Names)}

Cfgs == [files : [Levels -> Contents], cwd : Levels, flag : Flags]

Expected(c) ==
  CASE c.flag.k = "none"   -> WalkUp(c.files, c.cwd)
    [] c.flag.k = "dir"    -> WalkUp(c.files, c.flag.l)
    [] c.flag.k = "tfdir"  -> IF c.files[c.flag.l] # {} THEN [found |-> TRUE, level |-> c.flag.l, name |-> Best(c.files[c.flag.l])]
                              ELSE [found |-> FALSE, level |-> 0, name |-> 0]
    [] c.flag.k = "tffile" -> IF c.flag.n \in c.files[c.flag.l] THEN [found |-> TRUE, level |-> c.flag.l, name |-> c.flag.n]
                              ELSE [found |-> FALSE, level |-> 0, name |-> 0]

Init == cfg \in Cfgs /\ exp = Expected(cfg)
Next == FALSE /\ UNCHANGED <<cfg, exp>>
Spec == Init /\ [][Next]_<<cfg, exp>>
Emit == PrintT("CASE|" \o ToString([files |-> [l \in Levels |-> cfg.files[l]], cwd |-> cfg.cwd, flag |-> cfg.flag, exp |-> exp]))
=============================================================================
