SPECIFICATION Spec
CONSTANT MaxOptions = 1
CONSTRAINT Emit
CHECK_DEADLOCK FALSE
