SPECIFICATION Spec
CONSTANT RootTaskfileIsDirWhenSearched = TRUE
CONSTRAINT Emit
CHECK_DEADLOCK FALSE
