SPECIFICATION Spec
CONSTANT MaxPrefix = 2
CONSTRAINT Emit
CHECK_DEADLOCK FALSE
