------------------------------ MODULE Special ------------------------------
(***************************************************************************)
(* Beyond the listed properties: the special variables a task sees and the *)
(* directory it runs in (compiler.go getSpecialVars, Tasks.Merge for the   *)
(* directory of included tasks, setup for USER_WORKING_DIR).               *)
(* The task `target` (alias `tg`) lives in the root Taskfile, in an        *)
(* included one (ROOT/inc/Taskfile.yml, namespace inc) or in one included  *)
(* by that (ROOT/inc/deep/Taskfile.yml, namespace inc:deep).  The include  *)
(* of inc may carry dir: work; the task may carry dir: sub.  Task is       *)
(* started in ROOT or in ROOT/cw (the Taskfile is then found by walking    *)
(* up), the task is requested by name, by alias, or called by a root task; *)
(* flags: --force / --silent / --verbose (CLI_* variables), or --taskfile   *)
(* naming the root Taskfile explicitly.                                     *)
(* Paths are sequences of segments below ROOT.                             *)
(* Cases specification: one configuration per initial state.               *)
(***************************************************************************)
EXTENDS Naturals, Sequences, TLC

\* Deviation of the pinned code from the documentation ("ROOT_TASKFILE: the absolute path of the root Taskfile"):
\* unless --taskfile names the file, ROOT_TASKFILE is the root DIRECTORY (the compiler joins the directory with the
\* entrypoint the user gave, which is empty when the Taskfile was found by searching).  Recorded in DESIGN.md as a
\* growth finding; the switch keeps the specification faithful to what the code does.
CONSTANT RootTaskfileIsDirWhenSearched

VARIABLES cfg, exp

Cfgs == [loc : {"root", "inc", "deep"}, incdir : {"none", "work"}, taskdir : {"none", "sub"},
         cwd : {"root", "below"}, via : {"name", "alias", "call"}, flag : {"none", "force", "silent", "verbose", "taskfile"}]

Prefix(c) == CASE c.loc = "root" -> "" [] c.loc = "inc" -> "inc:" [] c.loc = "deep" -> "inc:deep:"
FileDir(c) == CASE c.loc = "root" -> <<>> [] c.loc = "inc" -> <<"inc">> [] c.loc = "deep" -> <<"inc", "deep">>

\* the directory a task runs in: the dir: of the include statement, resolved against the directory of the Taskfile
\* that contains the statement (no dir: = that directory itself), then the task's own dir:.  So tasks of inc run
\* where the root tasks run (or in ROOT/work), tasks of deep - included by inc/Taskfile.yml without dir: - run
\* in ROOT/inc whatever the outer include says.
TaskDir(c) == (CASE c.loc = "root" -> <<>>
                 [] c.loc = "inc"  -> IF c.incdir = "work" THEN <<"work">> ELSE <<>>
                 [] c.loc = "deep" -> <<"inc">>)
              \o (IF c.taskdir = "sub" THEN <<"sub">> ELSE <<>>)

Expected(c) ==
  [task     |-> Prefix(c) \o "target",
   \* ALIAS is the name the task was requested by (on the command line or in the task: call)
   alias    |-> Prefix(c) \o (IF c.via = "alias" THEN "tg" ELSE "target"),
   rootdir  |-> <<>>,
   roottf   |-> IF RootTaskfileIsDirWhenSearched /\ c.flag # "taskfile" THEN <<>> ELSE <<"Taskfile.yml">>,
   taskfile |-> FileDir(c) \o <<"Taskfile.yml">>,
   tfdir    |-> FileDir(c),
   taskdir  |-> TaskDir(c),
   pwd      |-> TaskDir(c),                          \* the commands really run there
   uwd      |-> IF c.cwd = "below" THEN <<"cw">> ELSE <<>>,
   force    |-> c.flag = "force", silent |-> c.flag = "silent", verbose |-> c.flag = "verbose"]

Init == cfg \in {c \in Cfgs : c.loc = "root" => c.incdir = "none"} /\ exp = Expected(cfg)
Next == FALSE /\ UNCHANGED <<cfg, exp>>
Spec == Init /\ [][Next]_<<cfg, exp>>
Emit == PrintT("CASE|" \o ToString([cfg |-> cfg, exp |-> exp]))
=============================================================================
